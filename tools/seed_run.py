#!/usr/bin/env python3
"""Apply a seeded patch to a scratch worktree of /repo HEAD, run checks against it (MCV_REPO), remove it.  usage: seed_run.py <name> [tier] [prop ...]"""
import json
import os
import subprocess
import sys
import time

name = sys.argv[1]
tier = sys.argv[2] if len(sys.argv) > 2 else "quick"
d = f"/verif/seeded/{name}"
meta = json.load(open(f"{d}/meta.json"))
props = sys.argv[3:] or [meta["property"]]
# the patch is applied to a scratch worktree of /repo HEAD and the checks are pointed at it (MCV_REPO);
# /repo itself is never modified, so this is safe while other runs read /repo
WT = f"/tmp/wt_seedrun_{name}"
subprocess.run(f"git -C /repo worktree remove --force {WT}", shell=True, capture_output=True)
a = subprocess.run(f"git -C /repo worktree add -q {WT} HEAD && git -C {WT} apply {d}/patch.diff", shell=True, capture_output=True, text=True)
assert a.returncode == 0, a.stderr
out = {}
try:
    for p in props:
        t0 = time.time()
        r = subprocess.run(["./check", p, tier], cwd="/verif", capture_output=True, text=True, env=dict(os.environ, MCV_REPO=WT))
        lines = [l for l in r.stdout.splitlines() if l.startswith(("VIOLATION", "BROKEN", "KNOWN", "  site"))]
        out[p] = {"rc": r.returncode, "lines": lines[:8], "wall": round(time.time() - t0, 1)}
        print(p, tier, "rc", r.returncode, f"{time.time()-t0:.0f}s")
        for l in lines[:8]:
            print("   ", l[:200])
finally:
    subprocess.run(f"git -C /repo worktree remove --force {WT}", shell=True, capture_output=True)
    subprocess.run("rm -f /verif/replays/*.json", shell=True)
    # evidence files were rewritten against a mutated tree: restore the committed ones
    subprocess.run("git -C /verif checkout -- evidence", shell=True)
det = [p for p, v in out.items() if v["rc"] == 1]
meta.setdefault("runs", []).append({"tier": tier, "results": out, "verif_commit": subprocess.run("git -C /verif rev-parse --short HEAD", shell=True, capture_output=True, text=True).stdout.strip()})
if det:
    meta["detected_by"] = sorted(set((meta.get("detected_by") or []) + [f"{p} {tier}" for p in det]))
json.dump(meta, open(f"{d}/meta.json", "w"), indent=1)
