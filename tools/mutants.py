#!/usr/bin/env python3
"""Hand-written mutation campaign (the 'M' lists of DESIGN.md section 4).

Each mutant is a textual replacement in one source file.  For every mutant: a scratch worktree of /repo HEAD
is made under /tmp, the replacement applied, the baseline tests run (a mutant that the existing tests kill is
reported as such and not counted), then the property's quick check is run against the worktree
(MCV_REPO=<worktree>) and the verdict recorded in /verif/seeded/mutants.json.  /repo itself is never touched.

usage: tools/mutants.py [filter-substring]
"""
import json
import os
import subprocess
import sys
import xml.etree.ElementTree as ET

WT = "/tmp/wt_mut"
PY = "/venv/bin/python"
BASE = json.load(open("/root/.vp/BASELINE.json"))["stable_pass"]

# (id, property, file, old, new)
M = [
    # C01
    ("c01-and-last-clause", "C01", "circuitgraph/sat.py", "            formula.append([variables.id(n)] + [-variables.id(f) for f in c.fanin(n)])\n        elif n_type == \"nand\":", "        elif n_type == \"nand\":"),
    ("c01-nand1-as-buf", "C01", "circuitgraph/sat.py", "elif n_type in [\"nand\", \"nor\", \"xnor\"] and len(c.fanin(n)) == 1:\n            n_type = \"not\"", "elif n_type in [\"nor\", \"xnor\"] and len(c.fanin(n)) == 1:\n            n_type = \"not\"\n        elif n_type == \"nand\" and len(c.fanin(n)) == 1:\n            n_type = \"buf\""),
    ("c01-model-index", "C01", "circuitgraph/sat.py", "return {n: model[variables.id(n) - 1] > 0 for n in c.nodes()}", "return {n: model[variables.id(n) % len(model)] > 0 for n in c.nodes()}"),
    ("c01-assumption-polarity", "C01", "circuitgraph/sat.py", "        if val:\n            formula.append([variables.id(n)])\n        else:\n            formula.append([-variables.id(n)])", "        if val:\n            formula.append([-variables.id(n)])\n        else:\n            formula.append([variables.id(n)])"),
    ("c01-no-existence-check", "C01", "circuitgraph/sat.py", "            if n not in c:\n                raise ValueError(f\"Node '{n}' in assumptions is not in circuit\")", "            pass"),
    ("c01-or-literal", "C01", "circuitgraph/sat.py", "                formula.append([variables.id(n), -variables.id(f)])\n            formula.append([-variables.id(n)] + [variables.id(f) for f in c.fanin(n)])", "                formula.append([variables.id(n), -variables.id(f)])\n            formula.append([variables.id(n)] + [variables.id(f) for f in c.fanin(n)])"),
    # C02
    ("c02-xnor-builds-xor", "C02", "circuitgraph/parsing/verilog.py", "            f\"xnor_{io}\", \"xnor\", fanin=self.parity_fanin(items), uid=True", "            f\"xnor_{io}\", \"xor\", fanin=self.parity_fanin(items), uid=True"),
    ("c02-first-port-last", "C02", "circuitgraph/parsing/verilog.py", "                fanin = ports[1:]\n", "                ports = ports[-1:] + ports[:-1]\n                fanin = ports[1:]\n"),
    ("c02-ternary-swapped", "C02", "circuitgraph/parsing/verilog.py", "a0 = self.add_node(f\"mux_a0_{io}\", \"and\", fanin=[n, items[2]], uid=True)", "a0 = self.add_node(f\"mux_a0_{io}\", \"and\", fanin=[n, items[1]], uid=True)"),
    ("c02-precedence-and-xor", "C02", "circuitgraph/parsing/verilog.lark", "?xor_gate: xor \"^\" and", "?xor_gate: xor \"^\" unary"),
    ("c02-drop-port-check", "C02", "circuitgraph/parsing/verilog.py", "        if not self.outputs <= self.io:", "        if False:"),
    ("c02-buffer-not-rename", "C02", "circuitgraph/parsing/verilog.py", "            if expression in self.gate_expressions:\n                self.c.relabel({expression: str(lvalue)})", "            if False:\n                pass"),
    ("c02-not-as-buf-for-bang", "C02", "circuitgraph/parsing/verilog.lark", "not_gate: ( \"!\" | \"~\" ) primary", "not_gate: \"~\" primary"),
    # C03
    ("c03-nor-no-negation", "C03", "circuitgraph/io.py", "if c.type(n) in [\"xnor\", \"nor\", \"nand\"]:", "if c.type(n) in [\"xnor\", \"nand\"]:"),
    ("c03-escaped-no-space", "C03", "circuitgraph/io.py", "c.relabel({node: node + \" \"})", "c.relabel({node: node + \"\"})"),
    ("c03-no-disconnect-bbout", "C03", "circuitgraph/io.py", "                c.disconnect(f\"{name}.{n}\", driven)\n", ""),
    ("c03-outputs-from-wires", "C03", "circuitgraph/io.py", "    outputs = list(c.outputs())", "    outputs = [o for o in c.outputs() if c.type(o) != \"input\"]"),
    ("c03-const-x-as-0", "C03", "circuitgraph/io.py", "insts.append(f\"assign {n} = 1'b{c.type(n)}\")", "insts.append(f\"assign {n} = 1'b{c.type(n) if c.type(n) != 'x' else '0'}\")"),
    # C04
    ("c04-xor-to-xnor", "C04", "circuitgraph/tx.py", "m.add(f\"dif_{n}\", \"xor\", fanin=[f\"c0_{n}\", f\"c1_{n}\"], fanout=\"sat\")", "m.add(f\"dif_{n}\", \"xnor\", fanin=[f\"c0_{n}\", f\"c1_{n}\"], fanout=\"sat\")"),
    ("c04-or-to-and", "C04", "circuitgraph/tx.py", "m.add(\"sat\", \"or\" if len(endpoints) > 1 else \"buf\", output=True)", "m.add(\"sat\", \"and\" if len(endpoints) > 1 else \"buf\", output=True)"),
    ("c04-tie-only-c0", "C04", "circuitgraph/tx.py", "m.add(n, \"input\", fanout=[f\"c0_{n}\", f\"c1_{n}\"])", "m.add(n, \"input\", fanout=[f\"c0_{n}\"])"),
    ("c04-or-threshold", "C04", "circuitgraph/tx.py", "\"or\" if len(endpoints) > 1 else \"buf\"", "\"or\" if len(endpoints) > 2 else \"buf\""),
    # C05
    ("c05-nand-helper", "C05", "circuitgraph/tx.py", "        \"nand\": \"and\",", "        \"nand\": \"nand\","),
    ("c05-fanin-ge", "C05", "circuitgraph/tx.py", "        while len(ck.fanin(n)) > k:\n            fi = ck.fanin(n)", "        while len(ck.fanin(n)) > k + 1:\n            fi = ck.fanin(n)"),
    ("c05-fanout-no-fanin", "C05", "circuitgraph/tx.py", "                \"buf\",\n                fanin=n,\n                fanout=[f0, f1],", "                \"buf\",\n                fanout=[f0, f1],"),
    ("c05-q-from-n", "C05", "circuitgraph/tx.py", "            conns = {d_port: n, q_port: q}", "            conns = {d_port: q, q_port: q}"),
    ("c05-nor-helper", "C05", "circuitgraph/tx.py", "        \"nor\": \"or\",", "        \"nor\": \"nor\","),
    # C06
    ("c06-no-buf-inputs", "C06", "circuitgraph/circuit.py", "            for n in sc.inputs():\n                self.set_type(f\"{name}_{n}\", \"buf\")\n            for n in sc.outputs():\n                self.set_output(f\"{name}_{n}\", False)", "            for n in sc.outputs():\n                self.set_output(f\"{name}_{n}\", False)"),
    ("c06-fill-no-pop", "C06", "circuitgraph/circuit.py", "        # remove blackbox\n        self.blackboxes.pop(name)", "        # remove blackbox\n        pass"),
    ("c06-fill-keep-outputs", "C06", "circuitgraph/circuit.py", "        for n in self.blackboxes[name].outputs():\n            self.set_output(f\"{name}_{n}\", False)", "        pass"),
    ("c06-strip-bbin-not-output", "C06", "circuitgraph/tx.py", "            g.nodes[n][\"type\"] = \"buf\"\n            g.nodes[n][\"output\"] = True\n            bb_pins.append(n)", "            g.nodes[n][\"type\"] = \"buf\"\n            bb_pins.append(n)"),
    ("c06-subbb-unprefixed", "C06", "circuitgraph/circuit.py", "        # add blackboxes\n        for bb_name, bb in sc.blackboxes.items():\n            self.blackboxes[f\"{name}_{bb_name}\"] = bb", "        # add blackboxes\n        for bb_name, bb in sc.blackboxes.items():\n            self.blackboxes[f\"{bb_name}\"] = bb"),
    # C07
    ("c07-connect-no-input-check", "C07", "circuitgraph/circuit.py", "            if t in [\"input\", \"0\", \"1\", \"x\", \"bb_output\"]:\n                raise ValueError(f\"cannot connect to {t} '{v}'\")", "            if t in [\"input\", \"0\", \"1\", \"bb_output\"]:\n                raise ValueError(f\"cannot connect to {t} '{v}'\")"),
    ("c07-fanin-threshold", "C07", "circuitgraph/circuit.py", "                if len(self.fanin(v)) + len(us) > 1:", "                if len(self.fanin(v)) + len(us) > 2:"),
    ("c07-bbout-nonbuf", "C07", "circuitgraph/circuit.py", "                    if self.type(v) != \"buf\":", "                    if self.type(v) not in (\"buf\", \"not\"):"),
    ("c07-uid-returns-taken", "C07", "circuitgraph/circuit.py", "        while f\"{n}_{i}\" in self.graph or f\"{n}_{i}\" in blocked:", "        while i < 0:"),
    ("c07-pins-swapped", "C07", "circuitgraph/circuit.py", "                io += [self.add(f\"{name}.{n}\", \"bb_input\")]\n            for n in blackbox.outputs():\n                io += [self.add(f\"{name}.{n}\", \"bb_output\")]", "                io += [self.add(f\"{name}.{n}\", \"bb_output\")]\n            for n in blackbox.outputs():\n                io += [self.add(f\"{name}.{n}\", \"bb_input\")]"),
    ("c07-no-bbin-source-check", "C07", "circuitgraph/circuit.py", "            if t in [\"bb_input\"]:\n                raise ValueError(f\"cannot connect from {t} '{u}'.\")", "            pass"),
    # C08
    ("c08-block-all-nodes", "C08", "circuitgraph/sat.py", "solver.add_clause([-model[variables.id(n) - 1] for n in startpoints])", "solver.add_clause([-model[variables.id(n) - 1] for n in c.nodes()])"),
    ("c08-block-inputs-only", "C08", "circuitgraph/sat.py", "    startpoints = c.startpoints()\n    solver, variables = construct_solver(c, assumptions)", "    startpoints = c.inputs()\n    solver, variables = construct_solver(c, assumptions)"),
    ("c08-sigprob-all-inputs", "C08", "circuitgraph/props.py", "    return count / (2 ** len(subc.startpoints()))", "    return count / (2 ** len(c.startpoints()))"),
    ("c08-pcnf-header", "C08", "circuitgraph/sat.py", "f\"c ind {enc_inps} 0\\np cnf {formula.nv} \"", "f\"c ind {enc_inps} 0\\np cnf {len(c)} \""),
    ("c08-approx-forgets-assumptions", "C08", "circuitgraph/sat.py", "                raise ValueError(f\"Assumption key '{n}' not node in circuit\")\n        add_assumptions(formula, variables, assumptions)", "                raise ValueError(f\"Assumption key '{n}' not node in circuit\")"),
    # C09
    ("c09-off-by-one", "C09", "circuitgraph/tx.py", "uc.connect(f\"{k}_{prefix}_{itr-1}\", f\"{v}_{prefix}_{itr}\")", "uc.connect(f\"{k}_{prefix}_{itr}\", f\"{v}_{prefix}_{itr}\")"),
    ("c09-swap-kv", "C09", "circuitgraph/tx.py", "    state_io = {f\"{bb}_{reg_d_port}\": f\"{bb}_{reg_q_port}\" for bb in c.blackboxes}", "    state_io = {f\"{bb}_{reg_q_port}\": f\"{bb}_{reg_d_port}\" for bb in c.blackboxes}"),
    ("c09-init-last-step", "C09", "circuitgraph/tx.py", "            for fi in [io_map[f\"{bb}_{reg_q_port}\"][0] for bb in c.blackboxes]:", "            for fi in [io_map[f\"{bb}_{reg_q_port}\"][-1] for bb in c.blackboxes]:"),
    ("c09-flop-outputs-inverted", "C09", "circuitgraph/tx.py", "        uc.set_output(io_map[state_output], add_flop_outputs)", "        uc.set_output(io_map[state_output], not add_flop_outputs)"),
    # C10
    ("c10-is0-on-or", "C10", "circuitgraph/tx.py", "                is_one = t.add(\n                    f\"{p}_is_1\", \"and\", fanout=one_not_in_fi, fanin=p, uid=True\n                )", "                is_one = t.add(\n                    f\"{p}_is_1\", \"nor\", fanout=one_not_in_fi, fanin=p, uid=True\n                )"),
    ("c10-parity-and", "C10", "circuitgraph/tx.py", "            t.add(\n                mapping[n],\n                \"or\",\n                fanin=[mapping[p] for p in c.fanin(n)],\n                output=c.is_output(n),", "            t.add(\n                mapping[n],\n                \"and\",\n                fanin=[mapping[p] for p in c.fanin(n)],\n                output=c.is_output(n),"),
    ("c10-const-companion-1", "C10", "circuitgraph/tx.py", "t.add(mapping[n], \"0\", output=c.is_output(n), allow_redefinition=True)", "t.add(mapping[n], \"1\", output=c.is_output(n), allow_redefinition=True)"),
    ("c10-buf-from-p", "C10", "circuitgraph/tx.py", "                \"buf\",\n                fanin=mapping[p],", "                \"buf\",\n                fanin=p,"),
    # C11
    ("c11-clog2", "C11", "circuitgraph/tx.py", "    for o in range(cg.utils.clog2(len(startpoints) + 1)):", "    for o in range(cg.utils.clog2(len(startpoints))):"),
    ("c11-ascending", "C11", "circuitgraph/props.py", "    sen = len(sp)\n    s = cg.tx.sensitivity_transform(c, n)", "    sen = 0\n    s = cg.tx.sensitivity_transform(c, n)\n    len_sp = len(sp)"),
    ("c11-c1-left-buf", "C11", "circuitgraph/tx.py", "    m.set_type(f\"c1_{n}\", \"not\")", "    m.set_type(f\"c1_{n}\", \"buf\")"),
    ("c11-influence-denominator", "C11", "circuitgraph/props.py", "                influences[s] = mc(c, s, n) / (2 ** len(sp))", "                influences[s] = mc(c, s, n) / (2 ** len(c.inputs()))"),
    ("c11-dif-from-orig", "C11", "circuitgraph/tx.py", "            fanin=[f\"orig_{n}\", f\"inv_{s0}_{n}\"],\n            fanout=f\"pc_in_{i}\",", "            fanin=[f\"orig_{n}\", f\"inv_{s0}_{n}\"],\n            fanout=f\"pc_in_{0 if i == 1 else i}\","),
    # C12
    ("c12-ancestors-descendants", "C12", "circuitgraph/circuit.py", "            gates |= nx.ancestors(self.graph, n)", "            gates |= nx.descendants(self.graph, n)"),
    ("c12-startpoints-no-self", "C12", "circuitgraph/circuit.py", "            return (set(ns) | self.transitive_fanin(ns)) & self.startpoints()", "            return self.transitive_fanin(ns) & self.startpoints()"),
    ("c12-levelize-min", "C12", "circuitgraph/props.py", "        levels[n] = max(levels[fi] for fi in c.fanin(n)) + 1", "        levels[n] = min(levels[fi] for fi in c.fanin(n)) + 1"),
    ("c12-kcuts-lt", "C12", "circuitgraph/circuit.py", "                if len(merged_cut) <= k:", "                if len(merged_cut) < k:"),
    ("c12-depth-plus", "C12", "circuitgraph/circuit.py", "                for fi in self.fanin(n):\n                    visited = visit_node(fi, visited, reachable, visited[n] + 1)", "                for fi in self.fanin(n):\n                    visited = visit_node(fi, visited, reachable, depth + 1)"),
    # C13
    ("c13-popcount-range", "C13", "circuitgraph/logic.py", "        ps.append([f\"add_{i}_out_{j}\" for j in range(aw + 1)])", "        ps.append([f\"add_{i}_out_{j}\" for j in range(aw)])"),
    ("c13-mux-sels", "C13", "circuitgraph/logic.py", "    for sel in product(*sels[::-1]):", "    for sel in product(*sels):"),
    ("c13-carry-chain", "C13", "circuitgraph/logic.py", "    c.add(\"cout\", \"or\", fanin=[\"x_y_ha_c\", \"cin_s_ha_c\"], output=True)", "    c.add(\"cout\", \"xor\", fanin=[\"x_y_ha_c\", \"cin_s_ha_c\"], output=True)"),
    ("c13-clog2-pow2", "C13", "circuitgraph/utils.py", "    while num > shifter:", "    while num >= shifter and num > 1:"),
    ("c13-lend-ignored", "C13", "circuitgraph/utils.py", "    if not lend:\n        s = \"\".join(\"1\" if v else \"0\" for v in b)", "    if True:\n        s = \"\".join(\"1\" if v else \"0\" for v in b)"),
    # C14
    ("c14-nets-swapped", "C14", "circuitgraph/parsing/fast_verilog.py", "            all_nets[gate].append(nets[0])\n            all_edges += [(i, nets[0]) for i in nets[1:]]", "            all_nets[gate].append(nets[-1])\n            all_edges += [(i, nets[-1]) for i in nets[:-1]]"),
    ("c14-b1-to-tie0", "C14", "circuitgraph/parsing/fast_verilog.py", "        elif n1 in [\"1'b1\", \"1'h1\", \"1'd1\"]:\n            all_edges.append((tie_1, n0))", "        elif n1 in [\"1'b1\", \"1'h1\", \"1'd1\"]:\n            all_edges.append((tie_0, n0))"),
    ("c14-assign-reversed", "C14", "circuitgraph/parsing/fast_verilog.py", "        else:\n            all_edges.append((n1, n0))", "        else:\n            all_edges.append((n0, n1))"),
    ("c14-no-const-in-pins", "C14", "circuitgraph/parsing/fast_verilog.py", "                if net == \"1'b1\":\n                    net = tie_1\n                elif net == \"1'b0\":\n                    net = tie_0", "                if net == \"1'b1\":\n                    net = tie_1"),
    # C15
    ("c15-buff-not-folded", "C15", "circuitgraph/io.py", "        if gate in (\"buff\", \"BUFF\"):", "        if gate in (\"BUFF\",):"),
    ("c15-dq-swapped", "C15", "circuitgraph/io.py", "connections={\"D\": inputs, \"Q\": net})", "connections={\"D\": net, \"Q\": inputs})"),
    ("c15-writer-xor-for-1", "C15", "circuitgraph/io.py", "            insts.append(f\"{n} = XNOR({const_inp}, {const_inp})\")", "            insts.append(f\"{n} = XOR({const_inp}, {const_inp})\")"),
    ("c15-no-lower", "C15", "circuitgraph/io.py", "            gate.lower(),\n            fanin=inputs,", "            gate,\n            fanin=inputs,"),
    # C16
    ("c16-le-1", "C16", "circuitgraph/circuit.py", "                if not self.is_output(fi) and len(self.fanout(fi)) == 1:", "                if not self.is_output(fi) and len(self.fanout(fi)) <= 2:"),
    ("c16-skip-is-output", "C16", "circuitgraph/circuit.py", "                if not self.is_output(fi) and len(self.fanout(fi)) == 1:", "                if len(self.fanout(fi)) == 1:"),
    ("c16-return-unloaded", "C16", "circuitgraph/circuit.py", "            self.remove(n)\n            removed.append(n)\n        return removed", "            self.remove(n)\n            removed.append(n)\n        return removed[:-1] if len(removed) > 2 else removed"),
    ("c16-x-as-input", "C16", "circuitgraph/circuit.py", "        kept_types = [\"bb_input\"] if inputs else [\"bb_input\", \"input\", \"bb_output\"]", "        kept_types = [\"bb_input\"] if inputs else [\"bb_input\", \"input\", \"bb_output\", \"x\"]"),
    # C17
    ("c17-frontier-ge", "C17", "circuitgraph/tx.py", "                if len(dom_tree[fi]) > 1:\n                    frontier.put(fi)", "                if len(dom_tree[fi]) >= 1:\n                    frontier.put(fi)"),
    ("c17-cover-inverted", "C17", "circuitgraph/tx.py", "        if supergate.nodes() - remaining_cover:", "        if not (supergate.nodes() - remaining_cover) or len(supergate_circuits) == 1:"),
    ("c17-no-modify-io", "C17", "circuitgraph/tx.py", "            supergate_circuit = subcircuit(c_output, supergate, modify_io=True)", "            supergate_circuit = subcircuit(c_output, supergate, modify_io=False)"),
    # C18
    ("c18-one-copy-too-few", "C18", "circuitgraph/tx.py", "    for i in range(len(feedback) + 1):", "    for i in range(max(1, len(feedback))):"),
    ("c18-outputs-from-c0", "C18", "circuitgraph/tx.py", "            acyc.add(o, \"buf\", fanin=f\"c{i}_{o}\", output=True)", "            acyc.add(o, \"buf\", fanin=f\"c0_{o}\", output=True)"),
    ("c18-aux-from-same-copy", "C18", "circuitgraph/tx.py", "                acyc.connect(f\"c{i-1}_{f}\", f\"c{i}_aux_in_{f}\")", "                acyc.connect(f\"c{i-1}_{f}\", f\"c{i}_aux_in_{f}\") if i < 2 else acyc.connect(f\"c{i-2}_{f}\", f\"c{i}_aux_in_{f}\")"),
    # C19
    ("c19-strip-io-inplace", "C19", "circuitgraph/tx.py", "    g = c.graph.copy()\n    for i in c.inputs():\n        g.nodes[i][\"type\"] = \"buf\"\n    for o in c.outputs():\n        g.nodes[o][\"output\"] = False\n\n    return cg.Circuit(graph=g, name=c.name, blackboxes=c.blackboxes.copy())", "    g = c.graph\n    for i in c.inputs():\n        g.nodes[i][\"type\"] = \"buf\"\n    for o in c.outputs():\n        g.nodes[o][\"output\"] = False\n\n    return cg.Circuit(graph=g, name=c.name, blackboxes=c.blackboxes.copy())"),
    ("c19-copy-shares-registry", "C19", "circuitgraph/circuit.py", "            graph=self.graph.copy(), name=self.name, blackboxes=self.blackboxes.copy()", "            graph=self.graph.copy(), name=self.name, blackboxes=self.blackboxes"),
    ("c19-writer-no-private-copy", "C19", "circuitgraph/io.py", "    c = Circuit(graph=c.graph.copy(), name=c.name, blackboxes=c.blackboxes.copy())\n    # sanitize escaped nets", "    # sanitize escaped nets"),
    ("c19-limit-fanout-inplace", "C19", "circuitgraph/tx.py", "    ck = c.copy()\n    for n in ck.nodes():\n        i = 0\n        while len(ck.fanout(n)) > k:", "    ck = c\n    for n in ck.nodes():\n        i = 0\n        while len(ck.fanout(n)) > k:"),
    ("c19-relabel-shares-registry", "C19", "circuitgraph/tx.py", "    g = nx.relabel_nodes(c.graph, mapping)\n    return cg.Circuit(graph=g, name=c.name, blackboxes=c.blackboxes.copy())", "    g = nx.relabel_nodes(c.graph, mapping)\n    return cg.Circuit(graph=g, name=c.name, blackboxes=c.blackboxes)"),
    # C20
    ("c20-multi-driver-threshold", "C20", "circuitgraph/utils.py", "        if c.type(g) in single_input_types and len(c.fanin(g)) > 1:", "        if c.type(g) in single_input_types and len(c.fanin(g)) > 2:"),
    ("c20-skip-bb-loop", "C20", "circuitgraph/utils.py", "    for name, bb in c.blackboxes.items():\n        for g in bb.inputs():", "    for name, bb in list(c.blackboxes.items())[1:]:\n        for g in bb.inputs():"),
    ("c20-no-dotted-rule", "C20", "circuitgraph/utils.py", "        if \".\" in g and g.split(\".\")[0] not in c.blackboxes:", "        if False:"),
    ("c20-failfast-swallow", "C20", "circuitgraph/utils.py", "    if errors:\n        msg =", "    if len(errors) > 1:\n        msg ="),
    ("c20-unloaded-ignores-output", "C20", "circuitgraph/utils.py", "        if unloaded and not c.is_output(g) and not c.fanout(g):", "        if unloaded and not c.fanout(g):"),
]


def sh(cmd, **kw):
    return subprocess.run(cmd, shell=True, capture_output=True, text=True, **kw)


def main():
    flt = sys.argv[1] if len(sys.argv) > 1 else ""
    out_path = "/verif/seeded/mutants.json"
    results = json.load(open(out_path)) if os.path.exists(out_path) else {}
    head = sh("git -C /repo rev-parse --short HEAD").stdout.strip()
    for mid, prop, path, old, new in M:
        if flt and flt not in mid and flt != prop:
            continue
        sh(f"git -C /repo worktree remove --force {WT}")
        r = sh(f"git -C /repo worktree add -q {WT} HEAD")
        assert r.returncode == 0, r.stderr
        try:
            p = os.path.join(WT, path)
            s = open(p).read()
            if s.count(old) != 1:
                results[mid] = {"property": prop, "status": f"pattern matches {s.count(old)} times - mutant not applicable", "repo_head": head}
                print(mid, results[mid]["status"])
                continue
            open(p, "w").write(s.replace(old, new))
            t = sh(f"cd {WT} && PYTHONPATH={WT} {PY} -m pytest -q -p no:cacheprovider --timeout=900 --junitxml={WT}/junit.xml tests")
            passed = set()
            for tc in ET.parse(f"{WT}/junit.xml").getroot().iter("testcase"):
                if not list(tc):
                    passed.add(f"{tc.get('classname')}::{tc.get('name')}")
            missing = sorted(set(BASE) - passed)
            if missing:
                results[mid] = {"property": prop, "status": "killed by the existing tests", "tests": missing[:3], "repo_head": head}
                print(mid, "killed by existing tests", missing[:2])
                continue
            env = dict(os.environ, MCV_REPO=WT)
            c = subprocess.run(["./check", prop, "quick"], cwd="/verif", capture_output=True, text=True, env=env)
            lines = [l for l in c.stdout.splitlines() if l.startswith(("VIOLATION", "BROKEN", "  site"))][:4]
            results[mid] = {"property": prop, "status": {0: "MISSED", 1: "caught", 2: "harness broken"}.get(c.returncode, str(c.returncode)),
                            "file": path, "lines": [l[:220] for l in lines], "repo_head": head}
            print(mid, results[mid]["status"], (lines[0][:140] if lines else ""))
        finally:
            sh(f"git -C /repo worktree remove --force {WT}")
            json.dump(results, open(out_path, "w"), indent=1, sort_keys=True)
    sh("rm -f /verif/replays/*.json")
    sh("git -C /verif checkout -- evidence")
    st = {}
    for v in results.values():
        st[v["status"].split(" - ")[0]] = st.get(v["status"].split(" - ")[0], 0) + 1
    print(st)


if __name__ == "__main__":
    main()
