#!/usr/bin/env python3
"""(kept trivial) manifest entries live in tools/gen_manifest.py"""
