#!/bin/bash
# validate MANIFEST.json and every evidence file against the schemas
python3-vt - <<'PY'
import json, glob, jsonschema, sys
m = json.load(open('/verif/MANIFEST.json'))
jsonschema.validate(m, json.load(open('/root/.vp/MANIFEST.schema.json')))
es = json.load(open('/root/.vp/EVIDENCE.schema.json'))
bad = 0
for f in sorted(glob.glob('/verif/evidence/*.json')):
    try:
        jsonschema.validate(json.load(open(f)), es)
    except Exception as e:
        bad += 1
        print("INVALID", f, str(e)[:300])
print("manifest ok;", len(glob.glob('/verif/evidence/*.json')), "evidence files,", bad, "invalid")
sys.exit(1 if bad else 0)
PY
