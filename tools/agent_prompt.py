#!/usr/bin/env python3
import json, sys
pid = sys.argv[1]; wt = sys.argv[2]
n = sys.argv[3] if len(sys.argv) > 3 else "2"
p = next(json.loads(l) for l in open('/verif/properties.jsonl') if json.loads(l)['id'] == pid)
import glob, os
TAG = os.environ.get("TAG", "w7")
avoid = []
for d in sorted(glob.glob(f"/verif/seeded/{pid.lower()}_*/notes.txt")):
    lines = [l.strip() for l in open(d).read().splitlines() if l.strip()]
    if lines:
        avoid.append("  - " + lines[0][:220])
AVOID = ""
if avoid and os.environ.get("WAVE2"):
    AVOID = "Other people have ALREADY produced the following changes for this property; yours must be different in kind (different function or different mechanism, not a variation of these):\n" + "\n".join(avoid) + "\n\n"
print(f"""You are helping test a verification effort by writing realistic bugs ("seeded defects") for the Python library circuitgraph (gate-level Boolean circuits as NetworkX graphs).

Your scratch git worktree of the library is {wt} (work ONLY there; never touch /repo or /verif, and do not read anything under /verif). Python is /venv/bin/python; run it with PYTHONPATH={wt} so that `import circuitgraph` resolves to your worktree (check circuitgraph.__file__). The existing test suite is run with:
  cd {wt} && PYTHONPATH={wt} /venv/bin/python -m pytest -q -p no:cacheprovider --timeout=900 tests
On the unmodified tree 44 tests pass and 25 fail (the 27 need the python-sat package, which is NOT installed and cannot be installed: no network). "Passing the existing tests" means: every test that passes on the unmodified tree still passes. If your demonstration needs SAT-backed functions (circuitgraph.sat / props), write a tiny stand-in `pysat` package (pysat.formula.CNF, IDPool; pysat.solvers.Cadical153 with bootstrap_with=, add_clause, solve, get_model) in a directory OUTSIDE the worktree's tracked files (e.g. {wt}/_demo/pysat) and put it on PYTHONPATH for the demonstration only; prefer demonstrations that evaluate circuits with your own small simulator instead.

The property under attack:
  {p['id']} - {p['title']}
  Statement: {p['statement']}
  Quantified over: {p['quantifier']['text']}
  Code it is anchored in: {', '.join(p['anchors']['files'])}

{AVOID}Task: produce {n} DIFFERENT changes to the library source (under {wt}/circuitgraph/), each of which
  (a) breaks the property above for some inputs,
  (b) still imports/compiles and leaves every existing test that passes on the unmodified tree passing (run them to be sure),
  (c) is realistic - the kind of slip a maintainer could make while refactoring or optimising (an off-by-one, a wrong table entry, a swapped argument, a dropped special case, a condition that is slightly too strong/weak, stale state reused across calls, two sites that each look fine alone) - not sabotage and not a comment/rename,
  (d) needs something specific to manifest: an unusual-but-legal input shape (a particular gate type at a particular fan-in, a particular combination of flags, an output that is also an input, a particular node-name or ordering), or a multi-step sequence of calls, or a particular set-iteration order - NOT something that any ordinary use would expose at once. Small diffs (1-10 lines) are best.
For each change k (k = 1..{n}) leave these files in {wt}/_seeded/{pid.lower()}_{TAG}_k/ :
  patch.diff  - `git diff` of the change against the worktree HEAD (source files only; must apply with `git apply` to a clean checkout of HEAD),
  demo.py     - a small standalone program (run as: PYTHONPATH=<tree> /venv/bin/python demo.py) that exits 0 on the unmodified tree and exits non-zero (assertion failure with a clear message) with the change applied; it must be deterministic (if it depends on set iteration order, set/document PYTHONHASHSEED or make it robust),
  notes.txt   - 3-6 lines: what the change is, why it breaks the property, what specific condition is needed to manifest it, and what you ran (test suite result with the change; demo result with and without).
Work on one change at a time: apply, run the tests, run demo, save `git diff`, then `git checkout -- circuitgraph` before the next. Leave the worktree's tracked files clean at the end (only the untracked _seeded/ and _demo/ directories remain). Finally report, per change, the one-line summary and the confirmation results. Do not commit anything.""")
