#!/bin/bash
# usage: tools/run_all.sh <quick|thorough> [seed ...]   - runs every claimed check, prints one summary line each
cd "$(dirname "$0")/.."
tier=$1; shift
seeds=${@:-0}
for seed in $seeds; do
  for p in C01 C02 C03 C04 C05 C06 C07 C08 C09 C10 C11 C12 C13 C14 C15 C16 C17 C18 C19 C20; do
    start=$(date +%s)
    out=$(VERIF_SEED=$seed ./check $p $tier 2>&1); rc=$?
    echo "seed=$seed $p rc=$rc $(( $(date +%s) - start ))s | $(echo "$out" | grep -E "^(C[0-9]+ |VIOLATION|BROKEN)" | tail -2 | tr '\n' ' ')"
  done
done
