#!/usr/bin/env python3
"""Systematic 'stale state across calls' mutation campaign.

For every library function a property is anchored in, two mutants are generated mechanically by wrapping the
function (the wrapper is appended to the end of its source file in a scratch worktree; /repo is never touched):

  stale : the result is memoised on a cheap fingerprint of the arguments - for circuits (object identity, number
          of nodes, number of edges), the shape of cache a maintainer adds "because circuits rarely change".  A
          call after an in-place edit that keeps those counts (set_type, moving an edge, set_output) returns the
          answer for the circuit as it was.  Results are handed out as deep copies, so ONLY staleness is wrong.
  alias : the result is memoised on a complete snapshot of the arguments (never stale), but the SAME result
          object is handed out every time - a caller that edits what it got corrupts every later call.

Each mutant must first survive the baseline tests (otherwise it is reported as killed by them), then the quick
check of its property is run with MCV_REPO pointing at the worktree.  Results go to /verif/seeded/memo_mutants.json.

usage: tools/memo_mutants.py [filter-substring]
"""
import json
import os
import subprocess
import sys
import xml.etree.ElementTree as ET

WT = "/tmp/wt_memo"
PY = "/venv/bin/python"
BASE = json.load(open("/root/.vp/BASELINE.json"))["stable_pass"]

# (property, file, name to wrap as it is spelt at the end of that file, kinds)
T = [
    ("C01", "circuitgraph/sat.py", "cnf", "sa"),
    ("C02", "circuitgraph/io.py", "verilog_to_circuit", "sa"),
    ("C02", "circuitgraph/parsing/verilog.py", "parse_verilog_netlist", "sa"),
    ("C03", "circuitgraph/io.py", "circuit_to_verilog", "s"),
    ("C04", "circuitgraph/tx.py", "miter", "sa"),
    ("C05", "circuitgraph/tx.py", "limit_fanin", "sa"),
    ("C05", "circuitgraph/tx.py", "limit_fanout", "sa"),
    ("C05", "circuitgraph/tx.py", "insert_registers", "sa"),
    ("C06", "circuitgraph/tx.py", "strip_blackboxes", "sa"),
    ("C08", "circuitgraph/sat.py", "model_count", "s"),
    ("C08", "circuitgraph/sat.py", "approx_model_count", "s"),
    ("C09", "circuitgraph/tx.py", "unroll", "sa"),
    ("C09", "circuitgraph/tx.py", "sequential_unroll", "sa"),
    ("C10", "circuitgraph/tx.py", "ternary", "sa"),
    ("C11", "circuitgraph/tx.py", "sensitization_transform", "sa"),
    ("C11", "circuitgraph/tx.py", "sensitivity_transform", "sa"),
    ("C11", "circuitgraph/props.py", "influence", "s"),
    ("C11", "circuitgraph/props.py", "sensitivity", "s"),
    ("C11", "circuitgraph/props.py", "sensitize", "s"),
    ("C12", "circuitgraph/circuit.py", "Circuit.is_cyclic", "s"),
    ("C12", "circuitgraph/circuit.py", "Circuit.fanin_depth", "s"),
    ("C12", "circuitgraph/circuit.py", "Circuit.fanout_depth", "s"),
    ("C12", "circuitgraph/circuit.py", "Circuit.transitive_fanin", "sa"),
    ("C12", "circuitgraph/circuit.py", "Circuit.transitive_fanout", "sa"),
    ("C12", "circuitgraph/circuit.py", "Circuit.reconvergent_fanout_nodes", "s"),
    ("C12", "circuitgraph/circuit.py", "Circuit.kcuts", "s"),
    ("C12", "circuitgraph/circuit.py", "Circuit.startpoints", "sa"),
    ("C12", "circuitgraph/circuit.py", "Circuit.endpoints", "sa"),
    ("C12", "circuitgraph/props.py", "levelize", "sa"),
    ("C13", "circuitgraph/logic.py", "adder", "a"),
    ("C13", "circuitgraph/logic.py", "popcount", "a"),
    ("C13", "circuitgraph/logic.py", "mux", "a"),
    ("C13", "circuitgraph/logic.py", "full_adder", "a"),
    ("C13", "circuitgraph/logic.py", "half_adder", "a"),
    ("C14", "circuitgraph/parsing/fast_verilog.py", "fast_parse_verilog_netlist", "a"),
    ("C15", "circuitgraph/io.py", "bench_to_circuit", "a"),
    ("C15", "circuitgraph/io.py", "circuit_to_bench", "s"),
    ("C17", "circuitgraph/tx.py", "supergates", "sa"),
    ("C18", "circuitgraph/tx.py", "acyclic_unroll", "sa"),
    ("C20", "circuitgraph/utils.py", "lint", "s"),
]

WRAPPER = '''

# --- mutant: memoised {name} ({kind}) ---
def _mcv_memo(f, kind):
    import copy as _copy
    import functools as _ft
    import inspect as _inspect

    cache = {{}}

    def fp(x):
        g = getattr(x, "graph", None)
        if g is not None and hasattr(g, "number_of_nodes"):
            if kind == "stale":
                return ("circuit", id(x), g.number_of_nodes(), g.number_of_edges(), len(getattr(x, "blackboxes", {{}})))
            return ("circuit", id(x), tuple(sorted((str(n), str(sorted(d.items(), key=str))) for n, d in g.nodes(data=True))),
                    tuple(sorted((str(u), str(v)) for u, v in g.edges)),
                    tuple(sorted((k, b.name, tuple(sorted(b.inputs())), tuple(sorted(b.outputs()))) for k, b in x.blackboxes.items())))
        if isinstance(x, (set, frozenset)):
            return ("set", tuple(sorted(map(repr, x))))
        if isinstance(x, dict):
            return ("dict", tuple(sorted((repr(k), fp(v)) for k, v in x.items())))
        if isinstance(x, (list, tuple)):
            return (type(x).__name__, tuple(fp(i) for i in x))
        if hasattr(x, "input_set") and hasattr(x, "output_set"):
            return ("bb", x.name, tuple(sorted(x.input_set)), tuple(sorted(x.output_set)))
        try:
            hash(x)
            return x
        except TypeError:
            return repr(x)

    @_ft.wraps(f)
    def w(*a, **k):
        key = (tuple(fp(x) for x in a), tuple(sorted((kk, fp(v)) for kk, v in k.items())))
        if key not in cache:
            r = f(*a, **k)
            if _inspect.isgenerator(r):
                r = list(r)
            cache[key] = (r, a, k)   # a, k: keep the argument objects alive so that ids are not reused
        r = cache[key][0]
        if kind == "stale":
            try:
                return _copy.deepcopy(r)
            except Exception:
                return r
        return r

    return w


{name} = _mcv_memo({name}, "{kind}")
'''


def sh(cmd, **kw):
    return subprocess.run(cmd, shell=True, capture_output=True, text=True, **kw)


def main():
    flt = sys.argv[1] if len(sys.argv) > 1 else ""
    out_path = "/verif/seeded/memo_mutants.json"
    results = json.load(open(out_path)) if os.path.exists(out_path) else {}
    head = sh("git -C /repo rev-parse --short HEAD").stdout.strip()
    for prop, path, name, kinds in T:
        for kd in kinds:
            kind = {"s": "stale", "a": "alias"}[kd]
            mid = f"{prop.lower()}-{name.replace('Circuit.', '')}-{kind}"
            if flt and flt not in mid and flt != prop:
                continue
            sh(f"git -C /repo worktree remove --force {WT}")
            r = sh(f"git -C /repo worktree add -q --detach {WT} HEAD")
            assert r.returncode == 0, r.stderr
            try:
                p = os.path.join(WT, path)
                with open(p, "a") as f:
                    f.write(WRAPPER.format(name=name, kind=kind))
                sh(f"cd {WT} && PYTHONPATH={WT} {PY} -m pytest -q -p no:cacheprovider --timeout=900 --junitxml={WT}/junit.xml tests")
                passed = set()
                for tc in ET.parse(f"{WT}/junit.xml").getroot().iter("testcase"):
                    if not list(tc):
                        passed.add(f"{tc.get('classname')}::{tc.get('name')}")
                missing = sorted(set(BASE) - passed)
                if missing:
                    results[mid] = {"property": prop, "status": "killed by the existing tests", "tests": missing[:3], "repo_head": head}
                    print(mid, "killed by existing tests", missing[:2], flush=True)
                    continue
                env = dict(os.environ, MCV_REPO=WT)
                c = subprocess.run(["./check", prop, "quick"], cwd="/verif", capture_output=True, text=True, env=env)
                lines = [l for l in c.stdout.splitlines() if l.startswith(("VIOLATION", "BROKEN", "  site"))][:4]
                results[mid] = {"property": prop, "status": {0: "MISSED", 1: "caught", 2: "harness broken"}.get(c.returncode, str(c.returncode)),
                                "file": path, "lines": [l[:220] for l in lines], "repo_head": head}
                print(mid, results[mid]["status"], (lines[0][:140] if lines else ""), flush=True)
            finally:
                sh(f"git -C /repo worktree remove --force {WT}")
                json.dump(results, open(out_path, "w"), indent=1, sort_keys=True)
    sh("rm -f /verif/replays/*.json")
    sh("git -C /verif checkout -- evidence")
    st = {}
    for v in results.values():
        st[v["status"]] = st.get(v["status"], 0) + 1
    print(st)


if __name__ == "__main__":
    main()
