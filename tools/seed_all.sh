#!/bin/bash
# re-run every kept seeded change against the quick check of its property (scratch worktree, /repo untouched)
cd "$(dirname "$0")/.."
for d in seeded/*/; do
  n=$(basename $d)
  [ -f $d/meta.json ] || continue
  if [ "$n" = "c18_2" ]; then echo "$n (thorough only) skipped"; continue; fi
  out=$(python3 tools/seed_run.py $n quick 2>&1 | grep -E " rc " | head -1)
  echo "$n $out"
done
