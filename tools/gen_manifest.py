#!/usr/bin/env python3
"""Generate /verif/MANIFEST.json from the table below (kept valid at all times)."""
import json
import os

HERE = os.path.dirname(os.path.dirname(os.path.abspath(__file__)))

TRUST = ("Guarantee holds inside the stated bounds only. Trusted base: mcv/refsim.py + mcv/refgraph.py "
         "(self-tested against hand-written tables at setup), CPython, networkx as a container.")
SAT_TRUST = (" SAT-backed library functions run on vendor/pysat (python-sat is not installable here): a complete "
             "DPLL behind python-sat's documented interface whose returned model is an enumerated environment answer; "
             "fidelity of real python-sat to that contract is assumed.")

# id: (built, technique, level text, level_note, design_ref)
CHECKS = {
    "C16": (True, "bounded exhaustive enumeration of all typed DAGs + explicit-state BFS over edit histories, on the implementation, vs reference reachability",
            "Every DAG with <=5 (thorough <=6) nodes x every source/sink typing (inputs, constants 0/x (thorough 0/1/x), blackbox pins) x every output subset x both flag values, and a BFS over remove_unloaded/disconnect/remove/set_output histories (depth 2, thorough 3) from all 4-node seeds; deletion set, return value, survivor attributes and idempotence compared with an independent liveness oracle in every case. Every shape is also built in reverse (load-first) insertion order. Dead chains of up to 3000 (thorough 8000) nodes. Dead nodes called like a blackbox instance. BFS clones carry hidden instance state (dirty flags, memos) and the state key includes it.",
            TRUST, "4/C16"),
    "C12": (True, "bounded exhaustive enumeration of all DAGs / digraphs x all argument subsets, on the implementation, vs reference graph algorithms",
            "Every DAG with <=6 nodes under three typings (plain, constants, blackbox pins) queried with every node and every non-empty node subset (all subsets up to 5 nodes; for 6-node DAGs subsets of size <=2, thorough <=4) for fanin/fanout/transitive_*/startpoints/endpoints/depths, plus levelize, topo_sort, reconvergent_fanout_nodes, kcuts k=1..4; every loop-free digraph on <=4 nodes for is_cyclic and the depth functions' rejection. Oracle: refgraph (closure, longest path) without networkx. Also: query / edit / query histories (connect, disconnect, remove, relabel, set_type, add_subcircuit of cyclic and acyclic children, fill_blackbox) on all 4-node DAG seeds. Chains and ladders of depth 3 ... 2600 (thorough 6000) with closed-form answers; history queries scramble first-round results and include a count-preserving edge move.",
            TRUST, "4/C12"),
    "C13": (True, "exhaustive enumeration of all input vectors per width (bit-parallel) and of helper argument ranges, on the implementation, vs integer arithmetic",
            "adder w<=6 (thorough 8) x 4 carry options, mux w<=9 (12), popcount w<=12 (15), half/full adder: ALL input vectors; widths 16..64 on complete structured vector families; clog2 on 1..4096 (65536) and 2^k, 2^k+-1 to k=64; int_to_bin/bin_to_int for all i<2^w, w<=10 (13), both endiannesses; lint on every block. Also: obtain / edit / regenerate histories over 8 generators x 6 edits.",
            TRUST + " Large widths (16..64) are covered on a stated finite family of vectors, not all 2^2w.", "4/C13"),
    "C20": (True, "bounded exhaustive enumeration of all attributed graphs x all flag sets, on the implementation, vs an independent three-valued implementation of the documented rules",
            "Every graph with <=2 nodes (thorough: 3 nodes over representative types) x 16 type choices incl. unsupported/missing x every edge set with self-loops x output marks x dotted names x 4 registries x all 16 flag combinations: lint must raise ValueError exactly when a documented rule is violated; plus lint on the output of every generator / parser / composition / transform over the (I<=2,G<=2) corpus. Producers include supergates, sequential_unroll, hierarchical pin names, remove_unloaded on blackbox circuits, the fast parser on h-spelt constants, and fills with children that hold blackboxes. Also write / re-read of flops with open and omitted pins through both parsers. lint / retype a node in place / lint; composition calls that try a second driver on a pin; generators after scrambled blocks. ternary on circuits whose companion names are taken. Feed-through circuits (every output a primary input); remove_unloaded(inputs=True) next to a flop.",
            TRUST, "4/C20"),
    "C01": (True, "bounded exhaustive enumeration of circuits x assumptions x solver answers on the implementation; CNF decided by truth-table evaluation of the clause list (no solver) vs reference consistency",
            "Every gate type at fan-in 1..5 (parity 6) over structurally distinct operands under all name-to-operand assignments (all 24 orders of 4 operands observed); all acyclic and cyclic circuits for (I,G) in {(2,2),(1,3)} (thorough +(3,2),(2,3)), constants, blackbox pins; the clause list of cnf(c) evaluated over all its variables and projected on node variables must equal the brute-force consistent valuations; solve(c,A) for all 3^n partial assignments of <=4(5)-node circuits under enumerated solver answers; nodes named like the encoder's auxiliary variables; 3-5 PYTHONHASHSEEDs. Also: query / in-place edit / query histories on one object, gates that list themselves in their fan-in, two wide parity gates meeting a shared operand pair in both orders (measured). Partial assignments also over circuits with constants (an assignment contradicting a tie-off must be UNSAT).",
            TRUST + SAT_TRUST, "4/C01"),
    "C04": (True, "bounded exhaustive enumeration of circuit pairs x startpoint/endpoint subsets on the implementation, vs two independent reference simulations",
            "c0 from (I<=2,G<=2) incl. feed-through outputs; c1 in {omitted, copy, every single-gate type mutation (mutated gate output or hidden), De-Morgan restructurings, every (2,1) circuit}; every non-empty subset of shared startpoints and shared endpoints plus defaults; sat table over tied + per-copy untied variables compared with OR_e(v0[e]^v1[e]); solve(m,{sat:1}) verdict under both solver polarities. Also: constants, circuits without inputs, names starting with the miter's own prefixes, the same argument objects (circuits, startpoint / endpoint sets) passed to two consecutive calls. Also: 1..50 (thorough 130) compared endpoints with a difference at exactly one of them, and call / in-place edit / call on the same two circuit objects. A c1 that computes one of c0's inputs itself (startpoint of c0 only).",
            TRUST + SAT_TRUST, "4/C04"),
    "C08": (True, "bounded exhaustive enumeration of circuits x assumption sets x solver polarities, plus explicit call histories on one object, on the implementation vs brute-force counting",
            "model_count for all circuits (I,G) in {(2,2),(3,1)} + constants + zero-startpoint + cyclic (2,2) + blackbox variants x all 3^n assumptions (n<=4 nodes; <=2-node assumptions beyond) x both polarities; cones with 5..8 (10) startpoints; signal_probability for every node (incl. startpoints, constants, outputs that are inputs); approx_model_count with a vendored exact projected counter: return value, sampling set, DIMACS header; depth-3 call histories (count / count with other assumptions / solve / retype / count) on one Circuit object. approx instances include single gates over 9-12 startpoints (sampling set spanning many ids). The count corpus holds nodes named like the encoder's auxiliary variables.",
            TRUST + SAT_TRUST + " approxmc is replaced by vendor/bin/approxmc (exact projected counter).", "4/C08"),
    "C09": (True, "bounded exhaustive enumeration of circuits x state maps x n (and sequential option products) on the implementation, vs iterated reference simulation over all initial states and input sequences",
            "unroll: all circuits (I,G) in {(2,2),(3,1),(1,2)} + feed-through outputs x every injective partial map outputs->inputs x n<=3 (5), all initial states and input sequences bit-parallel, exact free-input set; sequential_unroll: logic around 1-2 flops of two pin alphabets x add_flop_outputs x initial_values (None,'0','1',dicts) x remove_unloaded x ignore_pins (str and list, pin names that contain the D/Q port name) x n<=3 (4) vs cycle-accurate simulation of the blackbox circuit, output set, absence of ignored-pin nodes. Also: repeated calls on one circuit object with the same argument objects (checked for modification), flops with an unconnected Q pin, circuits without inputs. unroll / sequential_unroll also under reverse-order, stale and alias histories. Flop instances called like io nets. A scan flop unrolled along SD with its D pin ignored (pin names that are suffixes of one another).",
            TRUST, "4/C09"),
    "C10": (True, "bounded exhaustive enumeration of circuits x insertion orders on the implementation, all ternary patterns bit-parallel, vs reference Kleene evaluator",
            "All circuits (3,2,arity<=4), (2,3), (1,3) (thorough +(3,3)) with constants, wide gates, outputs that are inputs/constants, each built in forward and reverse node-insertion order; all 4^I (value, is-X) valuations: mapping[n]==1 iff Kleene X, else n carries the Kleene value. Also: ternary applied to the output of ternary (every synthesised name already taken), call / edit / call on one object, circuits without inputs.",
            TRUST, "4/C10"),
    "C11": (True, "bounded exhaustive enumeration of circuits x nodes x endpoint subsets on the implementation; transforms decided by reference simulation, SAT-backed analyses under enumerated solver answers",
            "sensitization_transform for every node and every non-empty endpoint subset (cap 3) + defaults, sensitivity_transform for every node over (I,G) in {(2,2),(3,2),(1,2)} + constants + feed-through: sat / dif_out / sen_out tables vs definitions; props.sensitivity/influence/avg_sensitivity/sensitize over (2,2),(3,1),(3,2 arity 2) and cones with 1..5 (8) startpoints incl. functionally constant nodes. Also: the same circuit and endpoints object passed twice, and a caller-edited popcount block obtained before the transform. Also a call restricted to each single endpoint before the judged default call on the same object. Stale / alias histories for both transforms and the props functions; influence / avg_sensitivity with list arguments. influence for nodes that are startpoints, one-element lists, endpoint sets that contain n.",
            TRUST + SAT_TRUST, "4/C11"),
    "C05": (True, "bounded exhaustive enumeration of circuits x k / num_stages x operand orders on the implementation, vs reference truth tables of every original node",
            "limit_fanin: each multi-input type with 2..6 (7) structurally distinct operands x k=2..5 x all m! name-to-operand assignments for m<=4 under 4 (6) hash seeds, plus generic circuits with arity<=4 and blackbox-adjacent wide gates; limit_fanout: drivers of 4 kinds with 2..7 mixed loads (gates, outputs, bb_input pins) x k=2..5 and generic shared-fan-in circuits; insert_registers: (2,3) circuits and chains, num_stages 1..3 where a boundary exists, flops made transparent; acyclic_unroll on acyclic circuits incl. outputs that are inputs/constants. Also: chains of two and three transforms (limit_fanin / limit_fanout in every order and k), circuits without inputs. limit_fanout also on overloaded nodes in series (1-3 stages, 0-4 side loads per stage). Every transform also under the four call histories of space.call_with_history (plain, reverse order, stale, alias) on a quarter of each corpus.",
            TRUST, "4/C05"),
    "C17": (True, "bounded exhaustive enumeration of circuits on the implementation, vs reference closure (cover, order, disjointness, induced wiring) and hierarchical reference simulation",
            "All fan-in<=2 circuits (2,3) over 6 types and (3,3) over {nand,nor,xor,not} with sink outputs and single-output variants + the textbook 13-gate example: single output per element, topological order, cover of every gate in the output cones, induced wiring, pairwise (reflexively) disjoint fan-in of supergate inputs; circuits with 3..4-input gates: cover + super-circuit; construct_supercircuit=True on every single-output circuit evaluated hierarchically (never flattened) vs the original function. Also: constants in cones, outputs whose cone is a single node, unloaded logic next to the cone, a family of two cones sharing a gate, all 4-input / 4-gate and-not circuits with every gate an output, call / edit / call. Two overlapping cones over a shared gate (3^4 x 4 x 9 circuits, thorough 5^4 x 4 x 9), constant outputs, x constants; super-circuit form under stale / alias histories. Shared wide gates under several hash seeds with a cross-supergate consistency clause; outputs that are primary inputs in the super-circuit form.",
            TRUST, "4/C17"),
    "C18": (True, "bounded exhaustive enumeration of cyclic circuits x output subsets x hash seeds on the implementation, vs brute-force fixed points",
            "All circuits (I,G) in {(1,2),(2,2),(1,3 arity 2)} (thorough +(1,3 arity 3),(2,3),(1,4)) whose gate fan-ins are arbitrary subsets of the other nodes and that contain a cycle, every output subset of size <=2, 3 hash seeds: result acyclic, lint-clean, same outputs, inputs = originals + one auxiliary per cut node; for every input valuation and every stable state, auxiliaries set to the stable values reproduce every output. Also: all loop-free digraphs on 4 nodes (thorough: 5 nodes) in two insertion orders, outputs that are inputs, circuits without inputs, call / rewire / call on one object. Also circuits whose names start with the prefixes the transform gives its copies. Names with the aux_in_ prefix. Bus-bit names next to their flattened spelling (y[0], y_0_).",
            TRUST, "4/C18"),
    "C07": (True, "explicit-state breadth-first search over the live Circuit object (all operation sequences up to a depth over a finite alphabet), invariant in every state, transition checks on every call",
            "181-operation alphabet (add with every type / fan-in / fan-out shape incl. missing, duplicate, self-referential names, uid=True; connect / disconnect on all pairs and lists; remove; set_output; add_blackbox with legal, illegal and unknown-pin connections; add_subcircuit with two children; fill_blackbox with matching / non-matching children) from 5 seed circuits, depth 3 (thorough 4), plus a 33-operation core alphabet explored to depth 6 (thorough 9) with exact de-duplication: wiring invariant + blackbox-pin invariant in every state; every raising call adds no edge and raises ValueError; uid=True never touches an existing node. The alphabet includes list-valued connects from a pin and multi-source connects ending in an illegal source. A blackbox definition listing one name as input and output is in the alphabet. The circuit itself as child / filling, the empty name, a fill child with an internal node whose prefixed name is taken.",
            TRUST + " State counts are summed over first-operation partitions.", "4/C07"),
    "C02": (True, "bounded exhaustive enumeration of programs generated from a reference grammar (all syntax trees up to an operator bound, all item permutations, all layouts with <=d deviations) parsed by the implementation, vs the AST's denotation",
            "ALL concrete syntax trees with <=2 (thorough 3) operator tokens over ~ ! & | ^ ~^ ^~ ?: ( ) and constants (77k programs, 48 assigns per module, failing modules re-run one assign at a time); primitive instances of 8 types at fan-in 1..4 incl. repeated operands, several per statement; 16 modules in ALL item permutations (use before definition, repeated sub-expressions, assignment lists, blackboxes); blackbox pins connected / .p() / omitted / constant; port-list vs declaration cross-check (all combinations for 2 names); every gap of two programs with <=1 (2) layout deviations incl. comments; module selection; nets named like the parser's synthetic names (known finding, listed programs). Dense layouts (no white space wherever legal) of every third packed module and of every layout program; read / edit / read on one text. Wires called tie_0 / tie_1 assigned their own constant (the writer's spelling). Comments whose text holds the other comment kind's opener.",
            TRUST + " The reference grammar encodes Verilog precedence ~ ! > & > ^ ~^ ^~ > | > ?: and is part of the trusted base.", "4/C02"),
    "C06": (True, "exhaustive enumeration of operation histories (add_subcircuit / add_blackbox / fill_blackbox / strip_blackboxes) on the live object up to a depth, every state compared with a hierarchical reference model",
            "Depth-1/2 histories over every child of (1,2),(2,2 arity 2) + special children x every connection map (inputs from {a,b,g,unattached}, outputs to sockets) x both routes (splice, blackbox then fill); two-instance histories (second may attach to nodes of the first, all interleavings of add_blackbox/fill) over 6 children incl. nested blackbox, feed-through and constant children, depth 3 (4); after every call: parent io, registry, pins, and every node's function vs a hierarchy-tree evaluation that never flattens; strip_blackboxes with and without ignore_pins on every state holding a blackbox. Histories that instantiate one definition twice are also run with the same argument objects (child Circuit, BlackBox, connection dict) handed to every call. Fills with a child of another interface followed by the proper fill, and parent instances whose names collide with a carried-over sub-blackbox. A copy of the parent taken before every call must be unchanged after it; pin names that collide after stripping must be refused. After every history the circuit is instantiated inside itself and compared with the same call on independent copies.",
            TRUST, "4/C06"),
    "C14": (True, "bounded exhaustive enumeration of restricted-subset programs (circuit space x styles x statement orders, all permutations of a family, all layouts with <=d white-space deviations) through both parsers, differential + denotational oracle",
            "Netlists from (2,1),(1,2 arity 4),(2,2 arity 2) + constants in writer and synthesis style, forward/reversed/rotated statement order; 6 modules in ALL statement permutations; blackbox pins connected / .p() / omitted / constant for two blackbox types; every gap (except ')' ';') of two programs with <=1 (2) white-space deviations; 19 bundled netlists that satisfy the restrictions (comment-stripped): same io, instances, pin connections, identical graphs up to the constant-node names, and the fast result denotes the AST. Also: nets named like either parser's constants or ending in a declaration keyword, repeated gate operands, h-spelt constants, and parse histories (one blackbox type name bound to different pin lists from call to call). Identifier shapes (leading underscore, capitals, digits) in every role, ports that are input and output, repeated parity operands from one name family and up to 15 repeats. Implicit (undeclared) nets, blackbox cells called like a primitive in another case. Parity gates that repeat a constant literal.",
            TRUST, "4/C14"),
    "C15": (True, "bounded exhaustive enumeration of bench texts generated from a bench AST (all spellings, all line orders up to 5 lines, white-space variants) and of circuits for the round trip, on the implementation, vs the AST's denotation",
            "Texts from the (2,2) circuit space in 2-4 spellings x ALL line orders (<=5 lines; 4 orders beyond), a fixed family with repeated operands, fan-in 4, DFF chains in every line order x 4 white-space styles; each net's function, declared io and each DFF blackbox (D driven by, Q drives); round trip of all circuits (2,2),(3,1),(1,2) + constants feeding gates / as outputs + outputs that are inputs under 3 hash seeds. Also read / edit / read histories on one text. Names with a leading underscore and 100+ character names. Every text also with # comments that look like statements (commented-out declarations and definitions, remarks behind statements).",
            TRUST, "4/C15"),
    "C19": (True, "exhaustive enumeration of (public function variant x corpus circuit) with a fixed edit history applied to result and to argument, on the implementation, deep-snapshot oracle",
            "68 function variants (all of tx except syn/aig, props, sat incl. approx_model_count on the stand-in, writers, to_file, lint, every read-only Circuit method, add_subcircuit/fill_blackbox's circuit argument) x 212 corpus circuits (enumerated + flops with two outputs, constants, cycles, escaped names): argument snapshot (all node attribute dicts, edges, name, registry incl. BlackBox identity and pin sets) identical after the call, also when it raises; 12 edits applied to every returned Circuit must not change the argument and vice versa. Also: circuits built on bare graphs (no 'output' attribute on non-outputs), a loop with a self-loop, constant-only circuits. A corpus circuit with dead logic.",
            TRUST + SAT_TRUST, "4/C19"),
    "C03": (True, "bounded exhaustive enumeration of circuits x output markings x blackbox pin connections x styles x hash seeds through writer and reader of the implementation, vs reference functions and graph identity",
            "All circuits (2,1),(1,2) with EVERY non-empty output subset (outputs that are inputs included), (2,2) with sink / all outputs, escaped identifiers, constants 0/1 feeding gates and as outputs, x constants (Kleene comparison), 14 blackbox circuits (two types, every pin connected or not, pin tied to a constant, escaped nets), both behavioral values, 3 hash seeds, and the to_file/from_file path: same name, io, instances, pin nets, functions at outputs and blackbox input pins; identical graph when there are no constants and gate primitives are written. Also reverse insertion order, write / edit / write histories and 100+ character names on a sixth of the corpus. What was read back is written and read once more when all its names are legal identifiers.",
            TRUST, "4/C03"),
}

NOT_YET = "check not built yet in this session (planned in DESIGN.md section 4); not claimed until its machinery exists"


def main():
    props = [json.loads(l) for l in open(os.path.join(HERE, "properties.jsonl"))]
    checks = []
    na = []
    for p in props:
        pid = p["id"]
        ent = CHECKS.get(pid)
        if not ent or not ent[0]:
            na.append({"property_id": pid, "reason": (ent[1] if ent else NOT_YET)})
            continue
        _, tech, text, note, ref = ent
        checks.append({
            "property_id": pid,
            "quick_cmd": f"./check {pid} quick",
            "thorough_cmd": f"./check {pid} thorough",
            "evidence_file": f"/verif/evidence/{pid}.json",
            "replay_cmd_template": f"./check {pid} --replay {{path}}",
            "engine": "mcv",
            "level_claimed": {"category": "model_checking", "text": text, "design_ref": f"DESIGN.md section {ref}"},
            "level_note": note,
            "technique": tech,
        })
    man = {
        "version": 1,
        "setup_cmd": "./check selftest",
        "hooks": {
            "guard": "CIRCUITGRAPH_VERIF",
            "enable": "no source hooks are needed: every observation is available through the public API and Circuit.graph / Circuit.blackboxes; checks import /repo's working tree directly (editable install, /repo first on sys.path)",
            "baseline_off_cmd": "cd /repo && /venv/bin/python -m pytest -ra -q -p no:cacheprovider --timeout=900 --continue-on-collection-errors",
            "source_commits": [],
            "add_only": True,
        },
        "engines": [{
            "name": "mcv",
            "path": "/verif/mcv",
            "serves_properties": [c["property_id"] for c in checks],
            "kind_free_text": "hand-written explicit-state / small-scope exhaustive explorer running the real implementation in fresh interpreters (one PYTHONHASHSEED each), compared against independent reference models (refsim, refgraph)",
        }],
        "checks": checks,
        "not_applicable": na,
        "notes": "All checks: ./check <id> quick|thorough ; replay: ./check <id> --replay <file>. Known findings: /verif/known_findings.json. Seeded mutants: /verif/seeded/. See DESIGN.md.",
    }
    with open(os.path.join(HERE, "MANIFEST.json"), "w") as f:
        json.dump(man, f, indent=1)
    print(f"MANIFEST.json: {len(checks)} checks, {len(na)} not_applicable")


if __name__ == "__main__":
    main()
