#!/usr/bin/env python3
"""Generate /verif/MANIFEST.json from the table below (kept valid at all times)."""
import json
import os

HERE = os.path.dirname(os.path.dirname(os.path.abspath(__file__)))

TRUST = ("Guarantee holds inside the stated bounds only. Trusted base: mcv/refsim.py + mcv/refgraph.py "
         "(self-tested against hand-written tables at setup), CPython, networkx as a container.")
SAT_TRUST = (" SAT-backed library functions run on vendor/pysat (python-sat is not installable here): a complete "
             "DPLL behind python-sat's documented interface whose returned model is an enumerated environment answer; "
             "fidelity of real python-sat to that contract is assumed.")

# id: (built, technique, level text, level_note, design_ref)
CHECKS = {
    "C16": (True, "bounded exhaustive enumeration of all typed DAGs + explicit-state BFS over edit histories, on the implementation, vs reference reachability",
            "Every DAG with <=5 (thorough <=6) nodes x every source/sink typing (inputs, constants, blackbox pins) x every output subset x both flag values, and a BFS over remove_unloaded/disconnect/remove/set_output histories (depth 2, thorough 3) from all 4-node seeds; deletion set, return value, survivor attributes and idempotence compared with an independent liveness oracle in every case.",
            TRUST, "4/C16"),
    "C12": (True, "bounded exhaustive enumeration of all DAGs / digraphs x all argument subsets, on the implementation, vs reference graph algorithms",
            "Every DAG with <=5 (thorough <=6) nodes under three typings (plain, constants, blackbox pins) queried with every node and every non-empty node subset for fanin/fanout/transitive_*/startpoints/endpoints/depths, plus levelize, topo_sort, reconvergent_fanout_nodes, kcuts k=1..4; every loop-free digraph on <=4 nodes for is_cyclic and the depth functions' rejection. Oracle: refgraph (closure, longest path) without networkx.",
            TRUST, "4/C12"),
    "C13": (True, "exhaustive enumeration of all input vectors per width (bit-parallel) and of helper argument ranges, on the implementation, vs integer arithmetic",
            "adder w<=6 (thorough 8) x 4 carry options, mux w<=9 (12), popcount w<=12 (15), half/full adder: ALL input vectors; widths 16..64 on complete structured vector families; clog2 on 1..4096 (65536) and 2^k, 2^k+-1 to k=64; int_to_bin/bin_to_int for all i<2^w, w<=10 (13), both endiannesses; lint on every block.",
            TRUST + " Large widths (16..64) are covered on a stated finite family of vectors, not all 2^2w.", "4/C13"),
    "C20": (True, "bounded exhaustive enumeration of all attributed graphs x all flag sets, on the implementation, vs an independent three-valued implementation of the documented rules",
            "Every graph with <=2 nodes (thorough: 3 nodes over representative types) x 16 type choices incl. unsupported/missing x every edge set with self-loops x output marks x dotted names x 4 registries x all 16 flag combinations: lint must raise ValueError exactly when a documented rule is violated; plus lint on the output of every generator / parser / composition / transform over the (I<=2,G<=2) corpus.",
            TRUST, "4/C20"),
}

NOT_YET = "check not built yet in this session (planned in DESIGN.md section 4); not claimed until its machinery exists"


def main():
    props = [json.loads(l) for l in open(os.path.join(HERE, "properties.jsonl"))]
    checks = []
    na = []
    for p in props:
        pid = p["id"]
        ent = CHECKS.get(pid)
        if not ent or not ent[0]:
            na.append({"property_id": pid, "reason": (ent[1] if ent else NOT_YET)})
            continue
        _, tech, text, note, ref = ent
        checks.append({
            "property_id": pid,
            "quick_cmd": f"./check {pid} quick",
            "thorough_cmd": f"./check {pid} thorough",
            "evidence_file": f"/verif/evidence/{pid}.json",
            "replay_cmd_template": f"./check {pid} --replay {{path}}",
            "engine": "mcv",
            "level_claimed": {"category": "model_checking", "text": text, "design_ref": f"DESIGN.md section {ref}"},
            "level_note": note,
            "technique": tech,
        })
    man = {
        "version": 1,
        "setup_cmd": "./check selftest",
        "hooks": {
            "guard": "CIRCUITGRAPH_VERIF",
            "enable": "no source hooks are needed: every observation is available through the public API and Circuit.graph / Circuit.blackboxes; checks import /repo's working tree directly (editable install, /repo first on sys.path)",
            "baseline_off_cmd": "cd /repo && /venv/bin/python -m pytest -ra -q -p no:cacheprovider --timeout=900 --continue-on-collection-errors",
            "source_commits": [],
            "add_only": True,
        },
        "engines": [{
            "name": "mcv",
            "path": "/verif/mcv",
            "serves_properties": [c["property_id"] for c in checks],
            "kind_free_text": "hand-written explicit-state / small-scope exhaustive explorer running the real implementation in fresh interpreters (one PYTHONHASHSEED each), compared against independent reference models (refsim, refgraph)",
        }],
        "checks": checks,
        "not_applicable": na,
        "notes": "All checks: ./check <id> quick|thorough ; replay: ./check <id> --replay <file>. Known findings: /verif/known_findings.json. Seeded mutants: /verif/seeded/. See DESIGN.md.",
    }
    with open(os.path.join(HERE, "MANIFEST.json"), "w") as f:
        json.dump(man, f, indent=1)
    print(f"MANIFEST.json: {len(checks)} checks, {len(na)} not_applicable")


if __name__ == "__main__":
    main()
