#!/usr/bin/env python3
"""Confirm a seeded change in a scratch worktree and file it under /verif/seeded/<name>/.

usage: seed_confirm.py <srcdir with patch.diff demo.py notes.txt> <property id> <name> [extra PYTHONPATH for demo]
Checks: demo passes on HEAD; patch applies; the 42 baseline tests still pass; demo fails with the patch.
"""
import json
import os
import shutil
import subprocess
import sys
import xml.etree.ElementTree as ET

src, prop, name = sys.argv[1:4]
src = os.path.abspath(src)
extra = sys.argv[4] if len(sys.argv) > 4 else ""
WT = f"/tmp/wt_confirm_{name}"
PY = "/venv/bin/python"
base = json.load(open("/root/.vp/BASELINE.json"))["stable_pass"]


def sh(cmd, **kw):
    return subprocess.run(cmd, shell=True, capture_output=True, text=True, **kw)


def demo():
    env = dict(os.environ, PYTHONPATH=WT + (":" + extra if extra else ""), PYTHONHASHSEED=os.environ.get("PYTHONHASHSEED", "0"))
    return subprocess.run([PY, os.path.join(src, "demo.py")], capture_output=True, text=True, env=env, cwd=WT, timeout=900)


sh(f"git -C /repo worktree remove --force {WT}")
r = sh(f"git -C /repo worktree add -q {WT} HEAD")
assert r.returncode == 0, r.stderr
res = {"property": prop, "name": name}
try:
    d0 = demo()
    res["demo_clean_rc"] = d0.returncode
    a = sh(f"git -C {WT} apply {os.path.abspath(src)}/patch.diff")
    res["patch_applies"] = a.returncode == 0
    if a.returncode != 0:
        res["apply_err"] = a.stderr[-500:]
    else:
        t = sh(f"cd {WT} && PYTHONPATH={WT} {PY} -m pytest -q -p no:cacheprovider --timeout=900 --junitxml={WT}/junit.xml tests")
        passed = set()
        for tc in ET.parse(f"{WT}/junit.xml").getroot().iter("testcase"):
            if not list(tc):
                passed.add(f"{tc.get('classname')}::{tc.get('name')}")
        res["baseline_missing"] = sorted(set(base) - passed)
        d1 = demo()
        res["demo_patched_rc"] = d1.returncode
        res["demo_patched_tail"] = (d1.stdout + d1.stderr)[-400:]
    ok = res.get("demo_clean_rc") == 0 and res.get("patch_applies") and not res.get("baseline_missing") and res.get("demo_patched_rc", 0) != 0
    res["confirmed"] = bool(ok)
finally:
    sh(f"git -C /repo worktree remove --force {WT}")
print(json.dumps(res, indent=1))
if res["confirmed"]:
    dst = f"/verif/seeded/{name}"
    os.makedirs(dst, exist_ok=True)
    for f in ("patch.diff", "demo.py", "notes.txt"):
        if os.path.exists(os.path.join(src, f)):
            shutil.copy(os.path.join(src, f), dst)
    notes = open(os.path.join(src, "notes.txt")).read() if os.path.exists(os.path.join(src, "notes.txt")) else ""
    meta = {"property": prop, "needs_to_manifest": notes.strip(),
            "confirmation": {"ran": "scratch worktree of /repo HEAD: demo.py (clean) -> rc 0; git apply patch.diff; pytest tests -> all 42 baseline tests pass; demo.py (patched) -> rc != 0",
                             "repo_head": sh("git -C /repo rev-parse --short HEAD").stdout.strip(),
                             "demo_patched_tail": res.get("demo_patched_tail", ""),
                             "demo_extra_pythonpath": extra},
            "detected_by": None}
    json.dump(meta, open(os.path.join(dst, "meta.json"), "w"), indent=1)
sys.exit(0 if res["confirmed"] else 1)
