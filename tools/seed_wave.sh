#!/bin/bash
# usage: tools/seed_wave.sh <worktree prefix e.g. /tmp/wt3_> <wave tag e.g. w3> <Cxx ...>
# confirms every <prefix>cxx/_seeded/cxx_<tag>_k and runs the quick check of its property against it
cd "$(dirname "$0")/.."
pre=$1; tag=$2; shift 2
for P in "$@"; do
  p=$(echo $P | tr A-Z a-z)
  for d in ${pre}${p}/_seeded/${p}_${tag}_*; do
    [ -d "$d" ] || continue
    n=$(basename $d)
    extra=""; [ -d ${pre}${p}/_demo ] && extra=${pre}${p}/_demo
    r=$(python3 tools/seed_confirm.py $d $P $n $extra | grep -E "\"confirmed" | tr -d ' ,')
    out=$(python3 tools/seed_run.py $n quick 2>&1 | grep -E " rc |site=|Error" | head -2 | cut -c1-160 | tr '\n' '|')
    echo "$n $r $out"
  done
done
