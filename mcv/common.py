"""Shared helpers for property modules (run inside workers)."""
import hashlib
import json
import os
import sys
import time

VERIF = os.path.dirname(os.path.dirname(os.path.abspath(__file__)))
REPO = os.environ.get("MCV_REPO", "/repo")


def setup_paths():
    """Import circuitgraph from /repo's working tree and pysat from the stand-in."""
    for p in (os.path.join(VERIF, "vendor"), REPO):
        if p in sys.path:
            sys.path.remove(p)
        sys.path.insert(0, p)
    os.environ["PATH"] = os.path.join(VERIF, "vendor", "bin") + os.pathsep + os.environ.get("PATH", "")


class Acc:
    """Accumulates what one job explored."""

    MAX_PER_SIG = 3
    MAX_TOTAL = 60

    def __init__(self, job):
        self.job = job
        self.states = 0          # distinct cases (circuits / programs / BFS states)
        self.transitions = 0     # implementation calls checked
        self.nontrivial = 0      # distinct cases that are non-trivial by the module's rule
        self.outcomes = {}       # outcome class -> count
        self.violations = []
        self.vsigs = {}
        self.samples = []
        self.extra = {}
        self._h = hashlib.sha256()
        self.t0 = time.time()
        self.deadline = None
        if job.get("budget_s"):
            self.deadline = self.t0 + job["budget_s"]
        self.capped = False

    def out_of_time(self):
        if self.deadline and time.time() > self.deadline:
            self.capped = True
            return True
        return False

    def outcome(self, key, n=1):
        self.outcomes[key] = self.outcomes.get(key, 0) + n

    def observe(self, *parts):
        """Feed the determinism digest."""
        self._h.update(repr(parts).encode())

    def sample(self, case, every=None):
        if len(self.samples) < 2:
            self.samples.append(case)
        else:
            self._last = case

    def violation(self, site, mode, case, detail=""):
        v = {
            "site": site,
            "mode": mode,
            "case": case,
            "detail": str(detail)[:600],
            "hashseed": self.job.get("hashseed", 0),
        }
        # listed known findings never use up the per-signature quota of unlisted violations
        try:
            from mcv import findings

            ent = findings.classify(self.job.get("prop", ""), v)
        except Exception:  # noqa: BLE001
            ent = None
        if ent is not None:
            k = ("known", ent["id"])
            self.vsigs[k] = self.vsigs.get(k, 0) + 1
            if self.vsigs[k] == 1:
                self.violations.append(v)
            return
        sig = (site, mode)
        self.vsigs[sig] = self.vsigs.get(sig, 0) + 1
        if self.vsigs[sig] <= self.MAX_PER_SIG and len(self.violations) < self.MAX_TOTAL:
            self.violations.append(v)

    def result(self):
        samples = list(self.samples)
        if getattr(self, "_last", None) is not None:
            samples.append(self._last)
        return {
            "states": self.states,
            "transitions": self.transitions,
            "nontrivial": self.nontrivial,
            "outcomes": self.outcomes,
            "violations": self.violations,
            "violation_counts": {f"{s}|{m}": n for (s, m), n in self.vsigs.items()},
            "samples": samples,
            "extra": self.extra,
            "digest": self._h.hexdigest(),
            "wall": round(time.time() - self.t0, 3),
            "capped": self.capped,
        }


def jdump(x):
    return json.dumps(x, sort_keys=True, default=str)


def exc_name(e):
    return type(e).__name__


def merge_extra(dst, src):
    """Merge per-job 'extra' dicts: ints add, lists of hashables union, dicts recurse."""
    for k, v in src.items():
        if isinstance(v, bool):
            dst[k] = dst.get(k, False) or v
        elif isinstance(v, (int, float)):
            dst[k] = dst.get(k, 0) + v
        elif isinstance(v, list):
            cur = dst.setdefault(k, [])
            for x in v:
                if x not in cur:
                    cur.append(x)
        elif isinstance(v, dict):
            merge_extra(dst.setdefault(k, {}), v)
        else:
            dst[k] = v
    return dst
