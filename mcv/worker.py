"""One fresh interpreter per job.  Usage: python -m mcv.worker Cxx  (job JSON on stdin)."""
import importlib
import json
import os
import sys
import traceback


def main():
    sys.set_int_max_str_digits(0)
    prop = sys.argv[1]
    job = json.loads(sys.stdin.read())
    job["prop"] = prop.upper()
    want = str(job.get("hashseed", 0))
    if os.environ.get("PYTHONHASHSEED") != want:
        print(json.dumps({"error": f"PYTHONHASHSEED is {os.environ.get('PYTHONHASHSEED')}, job wants {want}"}))
        return 3
    from mcv import common

    common.setup_paths()
    entered = set()
    if job.get("trace"):
        repo_pkg = os.path.join(common.REPO, "circuitgraph") + os.sep

        def prof(frame, event, arg):
            if event == "call":
                fn = frame.f_code.co_filename
                if fn.startswith(repo_pkg):
                    mod = fn[len(repo_pkg):-3].replace(os.sep, ".")
                    entered.add(f"{mod}.{frame.f_code.co_name}")

        sys.setprofile(prof)
    try:
        mod = importlib.import_module(f"mcv.props.{prop.lower()}")
        if "replay" in job and isinstance(job["replay"], dict) and job["replay"].get("kind") == "__job__":
            # replay of a whole job (a violation that needs the history the job builds up)
            inner = dict(job["replay"]["job"])
            inner["prop"] = prop.upper()
            res = mod.run(inner)
            want = tuple(job["replay"]["expect"])
            res["violations"] = [v for v in res["violations"] if (v["site"], v["mode"]) == want]
        elif "replay" in job:
            res = mod.replay(job["replay"], job)
        else:
            res = mod.run(job)
    except Exception:
        sys.setprofile(None)
        print(json.dumps({"error": traceback.format_exc()}))
        return 3
    sys.setprofile(None)
    if job.get("trace"):
        res["entered"] = sorted(entered)
    sys.stdout.write("\n@@RESULT@@" + json.dumps(res, default=str) + "\n")
    return 0


if __name__ == "__main__":
    sys.exit(main())
