"""Reference grammar, printer, layout enumerator and evaluator for the structural Verilog subset.

Programs are generated from this module's own AST, so their denotation is known without parsing.

Expression CST (concrete syntax tree; printing adds no parentheses of its own):
  ("id", name) | ("c", "1'b0" | "1'b1" | "1'h0" | "1'h1")
  ("par", e)                      explicit parentheses
  ("not", tok, e)                 tok in "~", "!" ; e is a primary
  ("and", l, r) ("or", l, r) ("xor", l, r) ("xnor", tok, l, r)   tok in "~^", "^~" ; left associative
  ("tern", c, a, b)               only at the top of an expression
Reference precedence (Verilog): ~ !  >  &  >  ^ ~^ ^~  >  |  >  ?:

Module AST:
  {"name": str, "ports": [names], "items": [item...]}
  item = ["input", [names]] | ["output", [names]] | ["wire", [names]]
       | ["assign", [[lhs, expr], ...]]
       | ["gate", type, [[inst, [out, operand exprs (ids / constants)...]], ...]]
       | ["bb", bbtype, inst, [[pin, net | None], ...]]        None prints as .pin()
"""
import itertools

from mcv import refsim

CONST0 = ("1'b0", "1'h0")
CONST1 = ("1'b1", "1'h1")


# --- expressions -------------------------------------------------------------------------------------------------


def expr_tokens(e):
    k = e[0]
    if k == "id":
        return [e[1]]
    if k == "c":
        return [e[1]]
    if k == "par":
        return ["("] + expr_tokens(e[1]) + [")"]
    if k == "not":
        return [e[1]] + expr_tokens(e[2])
    if k in ("and", "or", "xor"):
        return expr_tokens(e[1]) + [{"and": "&", "or": "|", "xor": "^"}[k]] + expr_tokens(e[2])
    if k == "xnor":
        return expr_tokens(e[2]) + [e[1]] + expr_tokens(e[3])
    if k == "tern":
        return expr_tokens(e[1]) + ["?"] + expr_tokens(e[2]) + [":"] + expr_tokens(e[3])
    raise ValueError(e)


def expr_eval(e, env, full):
    """Binary truth table of e; env: name -> table."""
    k = e[0]
    if k == "id":
        return env[e[1]]
    if k == "c":
        return full if e[1] in CONST1 else 0
    if k == "par":
        return expr_eval(e[1], env, full)
    if k == "not":
        return ~expr_eval(e[2], env, full) & full
    if k == "and":
        return expr_eval(e[1], env, full) & expr_eval(e[2], env, full)
    if k == "or":
        return expr_eval(e[1], env, full) | expr_eval(e[2], env, full)
    if k == "xor":
        return expr_eval(e[1], env, full) ^ expr_eval(e[2], env, full)
    if k == "xnor":
        return ~(expr_eval(e[2], env, full) ^ expr_eval(e[3], env, full)) & full
    if k == "tern":
        c = expr_eval(e[1], env, full)
        return (c & expr_eval(e[2], env, full)) | (~c & full & expr_eval(e[3], env, full))
    raise ValueError(e)


def expr_ids(e):
    if e[0] == "id":
        return {e[1]}
    out = set()
    for x in e[1:]:
        if isinstance(x, tuple) or isinstance(x, list):
            out |= expr_ids(x)
    return out


def exprs(atoms, nops, ternary=True, parens=True):
    """All CSTs of the reference grammar with exactly ``nops`` operator tokens (~ ! & | ^ ~^ ^~ ?:).
    Parentheses are free but never doubled; a parenthesised bare atom is generated for one identifier only."""
    memo = {}

    def nots(n):
        if n < 1:
            return []
        return [("not", tok, p) for tok in ("~", "!") for p in primary(n - 1)]

    def ands(n):
        return [("and", l, r) for k in range(n) for l in andx(k) for r in unary(n - 1 - k)]

    def xors(n):
        out = []
        for k in range(n):
            for l in xorx(k):
                for r in andx(n - 1 - k):
                    out += [("xor", l, r), ("xnor", "~^", l, r), ("xnor", "^~", l, r)]
        return out

    def ors(n):
        return [("or", l, r) for k in range(n) for l in orx(k) for r in xorx(n - 1 - k)]

    def cached(key, fn):
        if key not in memo:
            memo[key] = fn()
        return memo[key]

    def primary(n):
        def mk():
            out = list(atoms) if n == 0 else []
            if parens:
                if n == 0:
                    out += [("par", a) for a in atoms if a[0] == "id"][:1]
                else:
                    out += [("par", e) for e in nots(n) + ands(n) + xors(n) + ors(n)]
            return out
        return cached(("p", n), mk)

    def unary(n):
        return cached(("u", n), lambda: primary(n) + nots(n))

    def andx(n):
        return cached(("a", n), lambda: unary(n) + ands(n))

    def xorx(n):
        return cached(("x", n), lambda: andx(n) + xors(n))

    def orx(n):
        return cached(("o", n), lambda: xorx(n) + ors(n))

    out = list(orx(nops))
    if ternary and nops >= 1:
        for a in range(0, nops):
            for b in range(0, nops - a):
                c = nops - 1 - a - b
                out += [("tern", x, y, z) for x in orx(a) for y in orx(b) for z in orx(c)]
    return out


# --- modules ------------------------------------------------------------------------------------------------------


def item_tokens(it):
    k = it[0]
    if k in ("input", "output", "wire"):
        toks = [k]
        for i, n in enumerate(it[1]):
            if i:
                toks.append(",")
            toks.append(n)
        return toks + [";"]
    if k == "assign":
        toks = ["assign"]
        for i, (lhs, e) in enumerate(it[1]):
            if i:
                toks.append(",")
            toks += [lhs, "="] + expr_tokens(tuple_expr(e))
        return toks + [";"]
    if k == "gate":
        toks = [it[1]]
        for i, (inst, conns) in enumerate(it[2]):
            if i:
                toks.append(",")
            toks += [inst, "("]
            for j, c in enumerate(conns):
                if j:
                    toks.append(",")
                toks += expr_tokens(tuple_expr(c)) if not isinstance(c, str) else [c]
            toks.append(")")
        return toks + [";"]
    if k == "bb":
        toks = [it[1], it[2], "("]
        for j, (pin, net) in enumerate(it[3]):
            if j:
                toks.append(",")
            toks += [".", pin, "("] + ([net] if net is not None else []) + [")"]
        return toks + [")", ";"]
    raise ValueError(it)


def tuple_expr(e):
    """JSON round trip turns tuples into lists."""
    if isinstance(e, list):
        return tuple(tuple_expr(x) if isinstance(x, list) else x for x in e)
    if isinstance(e, tuple):
        return tuple(tuple_expr(x) if isinstance(x, (list, tuple)) else x for x in e)
    return e


def module_tokens(m):
    toks = ["module", m["name"], "("]
    for i, p in enumerate(m["ports"]):
        if i:
            toks.append(",")
        toks.append(p)
    toks += [")", ";"]
    for it in m["items"]:
        toks += item_tokens(it)
    toks.append("endmodule")
    return toks


WORD = set("abcdefghijklmnopqrstuvwxyzABCDEFGHIJKLMNOPQRSTUVWXYZ0123456789_'$\\[]")


def wordlike(t):
    return t[0] in WORD


KEYWORDS = ("module", "endmodule", "input", "output", "wire", "assign")


def gap_default(t1, t2):
    if t1 == ";":
        return "\n"
    if t2 in (",", ";", ")"):
        return ""
    if t1 in ("(", ".", "~", "!"):
        return ""
    if t2 == "(" and wordlike(t1) and t1 not in KEYWORDS:
        return ""
    return " "


def gap_legal_none(t1, t2):
    if t1.startswith("\\"):
        return False  # an escaped identifier ends at white space
    if wordlike(t1) and wordlike(t2):
        return False
    if (t1, t2) in (("^", "~"), ("~", "^"), ("/", "/"), ("/", "*"), ("*", "/")):
        return False
    return True


def render(toks, gaps=None):
    """Join tokens; gaps: {position i: string placed between toks[i] and toks[i+1]}."""
    out = []
    for i, t in enumerate(toks):
        out.append(t)
        if i + 1 < len(toks):
            g = gap_default(t, toks[i + 1])
            if gaps and i in gaps:
                g = gaps[i]
            if g == "" and not gap_legal_none(t, toks[i + 1]):
                g = " "
            out.append(g)
    return "".join(out) + "\n"


DEVIATIONS = ["", "\n", "\t", "  ", " /* c */ ", " // c\n"]


def layouts(toks, max_dev, protect=()):
    """All placements of <= max_dev gap deviations. ``protect``: positions that must keep their default."""
    pos = [i for i in range(len(toks) - 1) if i not in protect]
    yield {}
    for r in range(1, max_dev + 1):
        for ps in itertools.combinations(pos, r):
            choices = []
            for p in ps:
                ch = [d for d in DEVIATIONS if d != gap_default(toks[p], toks[p + 1]) and (d != "" or gap_legal_none(toks[p], toks[p + 1]))]
                choices.append(ch)
            for combo in itertools.product(*choices):
                yield dict(zip(ps, combo))


def header_close_positions(toks):
    """Index of the ')' that closes the module header (the gap before ';' there must stay empty)."""
    depth = 0
    for i, t in enumerate(toks):
        if t == "(":
            depth += 1
        elif t == ")":
            depth -= 1
            if depth == 0:
                return {i}
    return set()


# --- denotation ---------------------------------------------------------------------------------------------------


class Denotation:
    """What the module means: inputs, outputs, blackbox instances, and a table for every net."""

    def __init__(self, m, bb_defs):
        self.inputs = []
        self.outputs = []
        self.wires = []
        self.defs = {}      # net -> ("expr", e) | ("gate", type, [operand exprs]) | ("bbout", inst, pin)
        self.insts = {}     # inst -> (bbtype, {pin: net or None})
        self.multi = set()
        for it in m["items"]:
            k = it[0]
            if k == "input":
                self.inputs += it[1]
            elif k == "output":
                self.outputs += it[1]
            elif k == "wire":
                self.wires += it[1]
            elif k == "assign":
                for lhs, e in it[1]:
                    self._def(lhs, ("expr", tuple_expr(e)))
            elif k == "gate":
                for _inst, conns in it[2]:
                    ops = [("id", c) if isinstance(c, str) and not c.startswith("1'") else (("c", c) if isinstance(c, str) else tuple_expr(c)) for c in conns[1:]]
                    self._def(conns[0], ("gate", it[1], ops))
            elif k == "bb":
                ins, outs = bb_defs[it[1]]
                pins = {p: n for p, n in it[3]}
                self.insts[it[2]] = (it[1], pins)
                for p, n in it[3]:
                    if p in outs and n is not None:
                        self._def(n, ("bbout", it[2], p))
        self.bb_defs = bb_defs

    def _def(self, net, d):
        if net in self.defs:
            self.multi.add(net)
        self.defs[net] = d

    def free(self):
        fr = list(self.inputs)
        for inst, (bbt, pins) in sorted(self.insts.items()):
            for p in sorted(self.bb_defs[bbt][1]):
                fr.append(f"{inst}.{p}")
        return fr

    def tables(self):
        fr = self.free()
        assign, full = refsim.free_assign(fr)
        env = {n: assign[n][0] for n in self.inputs}
        todo = dict(self.defs)
        for _ in range(len(todo) + 2):
            prog = False
            for net, d in list(todo.items()):
                try:
                    if d[0] == "expr":
                        v = expr_eval(d[1], env, full)
                    elif d[0] == "gate":
                        ops = [(expr_eval(o, env, full), 0) for o in d[2]]
                        v = refsim.gate(d[1], ops, full)[0]
                    else:
                        v = assign[f"{d[1]}.{d[2]}"][0]
                except KeyError:
                    continue
                env[net] = v
                del todo[net]
                prog = True
            if not prog:
                break
        return env, fr, full, set(todo)


def circuit_tables(c, den):
    """Tables of the parsed circuit over the denotation's free variables."""
    fr = den.free()
    assign, full = refsim.free_assign(fr)
    a = {}
    for n in fr:
        a[n] = assign[n]
    # unconnected / undeclared-but-undriven nets would be free in the circuit: give them 0 so evaluation proceeds
    val = refsim.evaluate(c.graph, a, full)
    return val, full
