"""Reference semantics of gate-level circuits, independent of circuitgraph.

Reads only node ``type`` attributes and predecessor lists of a networkx-like
DiGraph (``g.nodes[n]['type']``, ``g.pred[n]``).  Everything is *bit-parallel*:
with k free variables a signal is one Python int of 2**k bits, bit j being the
value under valuation j (variable i has value ``(j >> i) & 1``).  All values
are dual-rail Kleene pairs ``(v, x)``: ``x`` marks the valuations where the
signal is X, ``v`` its binary value elsewhere (``v & x == 0`` always).
"""

GATES = ("and", "nand", "or", "nor", "xor", "xnor", "buf", "not")
CONSTS = ("0", "1", "x")
FREE_TYPES = ("input", "bb_output")


class RefError(Exception):
    """The reference model cannot give the circuit a meaning."""


def full_mask(k):
    return (1 << (1 << k)) - 1


def var_mask(i, k):
    """Truth table of variable i among k variables."""
    full = full_mask(k)
    blk = 1 << i
    return (full // ((1 << blk) + 1)) << blk


def free_assign(names):
    """Binary free variables for ``names`` (in the given order)."""
    k = len(names)
    return {n: (var_mask(i, k), 0) for i, n in enumerate(names)}, full_mask(k)


def gate(t, ops, full):
    """Kleene function of gate type ``t`` on operand list ``ops`` [(v, x)...]."""
    if t in ("buf", "not"):
        if len(ops) != 1:
            raise RefError(f"{t} with {len(ops)} operands")
        v, x = ops[0]
        if t == "not":
            v = ~v & full & ~x
        return v, x
    if not ops:
        raise RefError(f"{t} with no operands")
    if t in ("and", "nand"):
        any0 = 0
        all1 = full
        for v, x in ops:
            any0 |= ~v & ~x & full
            all1 &= v
        v, x = all1, full & ~any0 & ~all1
        if t == "nand":
            v = ~v & full & ~x
        return v, x
    if t in ("or", "nor"):
        any1 = 0
        all0 = full
        for v, x in ops:
            any1 |= v
            all0 &= ~v & ~x & full
        v, x = any1, full & ~any1 & ~all0
        if t == "nor":
            v = ~v & full & ~x
        return v, x
    if t in ("xor", "xnor"):
        acc = 0
        xx = 0
        for v, x in ops:
            acc ^= v
            xx |= x
        if t == "xnor":
            acc = ~acc & full
        return acc & ~xx, xx
    raise RefError(f"unknown gate type {t!r}")


def preds(g, n):
    return list(g.pred[n])


def topo_order(g):
    """Kahn topological order of all nodes, or None when cyclic."""
    indeg = {n: len(g.pred[n]) for n in g.nodes}
    ready = sorted(n for n, d in indeg.items() if d == 0)
    out = []
    while ready:
        n = ready.pop()
        out.append(n)
        for s in g.succ[n]:
            indeg[s] -= 1
            if indeg[s] == 0:
                ready.append(s)
    if len(out) != len(indeg):
        return None
    return out


def evaluate(g, assign, full, force=None, only=None):
    """Evaluate an acyclic circuit graph.

    assign: node -> (v, x) for the free nodes (inputs, bb_outputs, and any
            other node the caller wants treated as a free signal, e.g. an
            undriven buffer).  A node in ``assign`` is never computed.
    force:  node -> callable((v, x), full) -> (v, x), applied to the computed
            value of that node (used to invert / pin internal nodes).
    Returns node -> (v, x).
    """
    order = topo_order(g)
    if order is None:
        raise RefError("cyclic circuit")
    val = {}
    for n in order:
        if only is not None and n not in only:
            continue
        if n in assign:
            r = assign[n]
        else:
            t = g.nodes[n].get("type")
            if t == "0":
                r = (0, 0)
            elif t == "1":
                r = (full, 0)
            elif t == "x":
                r = (0, full)
            elif t in FREE_TYPES:
                raise RefError(f"free node {n!r} has no assignment")
            elif t == "bb_input":
                ps = preds(g, n)
                if len(ps) != 1:
                    raise RefError(f"bb_input {n!r} with {len(ps)} drivers")
                r = val[ps[0]]
            elif t in GATES:
                r = gate(t, [val[p] for p in preds(g, n)], full)
            else:
                raise RefError(f"node {n!r} has unsupported type {t!r}")
        if force and n in force:
            r = force[n](r, full)
        val[n] = r
    return val


def free_nodes(g, extra=()):
    fr = [n for n in g.nodes if g.nodes[n].get("type") in FREE_TYPES]
    fr += [n for n in extra if n not in fr]
    return sorted(fr)


def tables(g, extra_free=(), force=None, order=None):
    """Binary truth tables of every node over the free nodes.

    Returns (dict node -> int, list of free names, full).  Raises RefError if
    some node evaluates to X anywhere.
    """
    fr = list(order) if order is not None else free_nodes(g, extra_free)
    assign, full = free_assign(fr)
    val = evaluate(g, assign, full, force=force)
    out = {}
    for n, (v, x) in val.items():
        if x:
            raise RefError(f"node {n!r} is X")
        out[n] = v
    return out, fr, full


def kleene_tables(g, order=None):
    """Kleene tables with every free node ranging over {0, 1, X}.

    Each free node f gets two variables: value (index 2i) and is-X (2i+1).
    Returns (dict node -> (v, x), free list, full).
    """
    fr = list(order) if order is not None else free_nodes(g)
    k = 2 * len(fr)
    full = full_mask(k)
    assign = {}
    for i, n in enumerate(fr):
        xv = var_mask(2 * i + 1, k)
        assign[n] = (var_mask(2 * i, k) & ~xv, xv)
    return evaluate(g, assign, full), fr, full


def consistent(g, nodes=None):
    """All consistent valuations of a (possibly cyclic) circuit.

    Every node is a variable (sorted order).  Returns (mask, names) where bit j
    of mask is set iff valuation j satisfies every gate equation.
    """
    names = sorted(g.nodes) if nodes is None else list(nodes)
    k = len(names)
    if k > 16:
        raise RefError("too many nodes for brute-force consistency")
    full = full_mask(k)
    var = {n: var_mask(i, k) for i, n in enumerate(names)}
    ok = full
    for n in names:
        t = g.nodes[n].get("type")
        if t in FREE_TYPES:
            continue
        if t == "0":
            f = 0
        elif t == "1":
            f = full
        elif t == "bb_input":
            ps = preds(g, n)
            if len(ps) != 1:
                raise RefError("bb_input needs one driver")
            f = var[ps[0]]
        elif t in GATES:
            f, x = gate(t, [(var[p], 0) for p in preds(g, n)], full)
        else:
            raise RefError(f"unsupported type {t!r} in consistency check")
        ok &= ~(var[n] ^ f) & full
    return ok, names


def bits(mask, nbits):
    """Indices of set bits of mask below nbits."""
    out = []
    j = 0
    while mask:
        if mask & 1:
            out.append(j)
        mask >>= 1
        j += 1
    return out


def popcount(x):
    return bin(x).count("1")


# ---------------------------------------------------------------------------
# self test against hand-written tables


_HAND = {
    # type: {arity: table as string over valuations j = 0 .. 2**arity-1,
    #        operand i = bit i of j}
    "and": {1: "01", 2: "0001", 3: "00000001"},
    "nand": {1: "10", 2: "1110", 3: "11111110"},
    "or": {1: "01", 2: "0111", 3: "01111111"},
    "nor": {1: "10", 2: "1000", 3: "10000000"},
    "xor": {1: "01", 2: "0110", 3: "01101001"},
    "xnor": {1: "10", 2: "1001", 3: "10010110"},
    "buf": {1: "01"},
    "not": {1: "10"},
}


def selftest():
    for t, by in _HAND.items():
        for k, s in by.items():
            assign, full = free_assign(list(range(k)))
            v, x = gate(t, [assign[i] for i in range(k)], full)
            want = sum(1 << j for j, ch in enumerate(s) if ch == "1")
            assert x == 0 and v == want, (t, k, bin(v), s)
    # 4-input parity / and by counting
    assign, full = free_assign(list(range(4)))
    ops = [assign[i] for i in range(4)]
    for j in range(16):
        ones = bin(j).count("1")
        assert (gate("xor", ops, full)[0] >> j) & 1 == ones % 2
        assert (gate("xnor", ops, full)[0] >> j) & 1 == 1 - ones % 2
        assert (gate("and", ops, full)[0] >> j) & 1 == (ones == 4)
        assert (gate("nor", ops, full)[0] >> j) & 1 == (ones == 0)
    # Kleene: and(0, X) = 0, and(1, X) = X, or(1, X) = 1, xor(1, X) = X
    one, zero, ex = (1, 0), (0, 0), (0, 1)
    assert gate("and", [zero, ex], 1) == (0, 0)
    assert gate("and", [one, ex], 1) == (0, 1)
    assert gate("or", [one, ex], 1) == (1, 0)
    assert gate("or", [zero, ex], 1) == (0, 1)
    assert gate("xor", [one, ex], 1) == (0, 1)
    assert gate("nand", [zero, ex], 1) == (1, 0)
    assert gate("nor", [one, ex], 1) == (0, 0)
    assert gate("not", [ex], 1) == (0, 1)
    assert var_mask(0, 2) == 0b1010 and var_mask(1, 2) == 0b1100
    return True
