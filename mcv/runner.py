"""Runner: partitions a property's space into jobs, runs each in a fresh
interpreter with its own PYTHONHASHSEED, merges, writes evidence, sets exit code.

exit 0  property held on everything explored (known findings are printed)
exit 1  at least one unlisted violation; one 'VIOLATION property=.. replay=..' line each
exit 2  the harness itself is broken (worker crash, nondeterminism, mechanism not reached)
"""
import argparse
import hashlib
import importlib
import json
import os
import subprocess
import sys
import time
from concurrent.futures import ThreadPoolExecutor

HERE = os.path.dirname(os.path.dirname(os.path.abspath(__file__)))
PY = os.environ.get("MCV_PYTHON", "/venv/bin/python")
sys.path.insert(0, HERE)

from mcv import findings  # noqa: E402
from mcv.common import merge_extra  # noqa: E402

MAX_REPORT = 5


def run_worker(prop, job, timeout):
    env = dict(os.environ)
    env["PYTHONHASHSEED"] = str(job.get("hashseed", 0))
    env["PYTHONPATH"] = HERE
    env["PYTHONDONTWRITEBYTECODE"] = "1"
    env.pop("CIRCUITGRAPH_VERIF", None)
    t0 = time.time()
    try:
        p = subprocess.run(
            [PY, "-m", "mcv.worker", prop],
            input=json.dumps(job),
            capture_output=True,
            text=True,
            env=env,
            cwd=HERE,
            timeout=timeout,
        )
    except subprocess.TimeoutExpired:
        return {"error": f"worker timeout after {timeout}s", "job": job}
    out = p.stdout
    k = out.rfind("@@RESULT@@")
    if k < 0:
        err = None
        for line in out.splitlines():
            if line.startswith('{"error"'):
                try:
                    err = json.loads(line)["error"]
                except Exception:
                    pass
        return {"error": err or (out[-2000:] + "\n" + p.stderr[-3000:]), "job": job, "rc": p.returncode}
    res = json.loads(out[k + len("@@RESULT@@"):].strip().splitlines()[0])
    res["job"] = job
    res["elapsed"] = round(time.time() - t0, 2)
    return res


def vkey(v):
    return (v["site"], v["mode"])


def replay_path(prop, v):
    h = hashlib.sha1(json.dumps(v["case"], sort_keys=True, default=str).encode()).hexdigest()[:10]
    site = "".join(ch if ch.isalnum() else "_" for ch in v["site"])[:40]
    return os.path.join(HERE, "replays", f"{prop}-{site}-{h}.json")


def do_replay(prop, path, timeout=600):
    with open(path) as f:
        rec = json.load(f)
    job = {"hashseed": rec.get("hashseed", 0), "replay": rec["case"]}
    r1 = run_worker(prop, job, timeout)
    r2 = run_worker(prop, job, timeout)
    for r in (r1, r2):
        if "error" in r:
            print(f"BROKEN: replay worker failed:\n{r['error']}")
            return 2
    s1 = sorted(vkey(v) for v in r1["violations"])
    s2 = sorted(vkey(v) for v in r2["violations"])
    if s1 != s2 or r1.get("digest") != r2.get("digest"):
        print(f"BROKEN: replay is not deterministic: {s1} vs {s2}")
        return 2
    db = findings.load()
    bad = 0
    for v in r1["violations"]:
        ent = findings.classify(prop, v, db)
        if ent:
            print(f"KNOWN-FINDING: property={prop} {ent['id']}: {ent['what']}")
        else:
            bad += 1
            print(f"  reproduced: site={v['site']} mode={v['mode']} detail={v['detail']}")
    if bad:
        print(f"VIOLATION property={prop} replay={path}")
        return 1
    print(f"replay of {path}: no violation (observed twice, deterministic)")
    return 0


def main(argv=None):
    ap = argparse.ArgumentParser()
    ap.add_argument("prop")
    ap.add_argument("tier", nargs="?", default=os.environ.get("VERIF_TIER", "quick"))
    ap.add_argument("--replay")
    ap.add_argument("--workers", type=int, default=int(os.environ.get("MCV_WORKERS", "0")))
    ap.add_argument("--only", help="run only jobs whose 'sub' matches (debug; evidence says so)")
    a = ap.parse_args(argv)
    prop = a.prop.upper()
    if a.replay:
        return do_replay(prop, a.replay)
    tier = a.tier if a.tier in ("quick", "thorough") else "quick"
    try:
        seed = int(os.environ.get("VERIF_SEED", "0"))
    except ValueError:
        seed = 0
    t0 = time.time()
    mod = importlib.import_module(f"mcv.props.{prop.lower()}")
    jobs = mod.jobs(tier, seed)
    if a.only:
        jobs = [j for j in jobs if a.only in str(j.get("sub"))]
    for i, j in enumerate(jobs):
        j.setdefault("hashseed", 0)
        j["tier"] = tier
        j["idx"] = i
    nw = a.workers or min(16, os.cpu_count() or 4)
    timeout = getattr(mod, "JOB_TIMEOUT", {}).get(tier, 1500 if tier == "quick" else 7200)

    # determinism + mechanism-reached probes: the first job of every sub-space again, traced
    probes = []
    seen_sub = set()
    for j in jobs:
        if j.get("sub") not in seen_sub:
            seen_sub.add(j.get("sub"))
            pj = dict(j)
            pj["trace"] = True
            probes.append(pj)
    with ThreadPoolExecutor(max_workers=nw) as ex:
        fprobes = [ex.submit(run_worker, prop, pj, timeout) for pj in probes]
        results = list(ex.map(lambda j: run_worker(prop, j, timeout), jobs))
        rprobes = [f.result() for f in fprobes]

    broken = []
    nondet = []
    for r in results + rprobes:
        if "error" in r:
            broken.append(f"job {r['job'].get('sub')}#{r['job'].get('chunk')}: {r['error']}")
    if not broken:
        allent = set()
        for rp in rprobes:
            if rp["digest"] != results[rp["job"]["idx"]]["digest"]:
                nondet.append(f"nondeterminism: job {rp['job'].get('sub')}#{rp['job'].get('chunk')} gave different "
                              "observation digests in two fresh interpreters")
            allent |= set(rp.get("entered", []))
        mech = getattr(mod, "MECHANISM", [])
        missing = [m for m in mech if m not in allent and _exists(m)]
        _db = findings.load()
        any_violation = any(findings.classify(prop, v, _db) is None for r in results for v in r.get("violations", []))
        if missing and not a.only and not any_violation:
            # (when cases already fail before reaching a function, the violations are the message)
            broken.append(f"mechanism never entered by the probe jobs: {missing}")
    if nondet and not broken:
        # behaviour that differs between two runs with the same hash seed (e.g. sets of objects ordered by
        # address).  A violation that reproduces on replay is still a violation; without one the run is broken.
        _db2 = findings.load()
        if not any(findings.classify(prop, v, _db2) is None for r in results for v in r.get("violations", [])):
            broken += nondet
    if broken:
        for b in broken[:5]:
            print("BROKEN:", b)
        _evidence(prop, tier, seed, mod, [r for r in results if "error" not in r], [], time.time() - t0, broken=broken)
        return 2

    # merge
    db = findings.load()
    known = {}
    unlisted = {}
    for r in results:
        for v in r["violations"]:
            ent = findings.classify(prop, v, db)
            if ent:
                known.setdefault(ent["id"], (ent, v))
            else:
                unlisted.setdefault(vkey(v), v)
    rc = 0
    for ent, v in known.values():
        print(f"KNOWN-FINDING: property={prop} {ent['id']}: {ent['what']}")
    reported = []
    unreproduced = []
    for key, v in list(unlisted.items())[:MAX_REPORT]:
        path = replay_path(prop, v)
        rec = {"property": prop, "site": v["site"], "mode": v["mode"], "detail": v["detail"],
               "hashseed": v["hashseed"], "case": v["case"]}
        os.makedirs(os.path.dirname(path), exist_ok=True)
        with open(path, "w") as f:
            json.dump(rec, f, indent=1, sort_keys=True, default=str)
        # re-evaluate in isolation before believing it
        rr = run_worker(prop, {"hashseed": v["hashseed"], "replay": v["case"]}, timeout)
        if "error" in rr:
            print(f"BROKEN: could not re-evaluate {key}: {rr['error']}")
            rc = max(rc, 2)
            continue
        if not any(vkey(x) == key for x in rr["violations"]):
            # not reproducible from the case alone: does it depend on what the same worker did before (stale state
            # across calls)?  Re-run the whole job in a fresh interpreter; if the violation comes back, the job is
            # the replayable artefact.
            src = next((r for r in results if any(vkey(x) == key and x["case"] == v["case"] for x in r["violations"])), None)
            again = run_worker(prop, dict(src["job"]), timeout) if src else {"error": "no source job"}
            if "error" not in again and any(vkey(x) == key for x in again["violations"]):
                rec = {"property": prop, "site": v["site"], "mode": v["mode"], "detail": v["detail"], "hashseed": v["hashseed"],
                       "case": {"kind": "__job__", "job": src["job"], "expect": [v["site"], v["mode"]], "failing_case": v["case"]}}
                with open(path, "w") as f:
                    json.dump(rec, f, indent=1, sort_keys=True, default=str)
                print(f"  site={v['site']} mode={v['mode']} detail={v['detail'][:300]}")
                print("  (reproduces only after the cases the same job explored before it: state kept across calls)")
                print(f"VIOLATION property={prop} replay={path}")
                reported.append(key)
                rc = max(rc, 1)
                continue
            unreproduced.append(f"violation {key} did not reproduce in isolation (replay {path})")
            continue
        print(f"  site={v['site']} mode={v['mode']} detail={v['detail'][:300]}")
        print(f"VIOLATION property={prop} replay={path}")
        reported.append(key)
        rc = max(rc, 1)
    for u in unreproduced:
        # a failure that does not repeat is only believed when another one does (the library orders some sets of
        # objects by address, which no hash seed controls)
        print(("NOTE: " if reported else "BROKEN: ") + u)
        if not reported:
            rc = max(rc, 2)
    if nondet:
        for nd in nondet[:3]:
            print("NOTE:", nd)
        if not reported:
            print("BROKEN: run-to-run nondeterminism and no violation that reproduces on replay")
            rc = max(rc, 2)
    wall = time.time() - t0
    ev = _evidence(prop, tier, seed, mod, results, reported, wall, known=[k for k in known],
                   only=a.only, n_unlisted=len(unlisted))
    cov = ev["coverage"]
    print(
        f"{prop} {tier}: states={cov['states']} transitions={cov['transitions']} "
        f"nontrivial={cov['distinct_nontrivial']} outcomes={len(cov['distinct_outcomes'])} "
        f"jobs={len(jobs)} exhaustive={cov['exhaustive']} violations={len(unlisted)} "
        f"known={len(known)} wall={wall:.1f}s"
    )
    return rc


def _exists(qual):
    """Does function mod.func still exist in /repo/circuitgraph (by name, textually)?"""
    modname, func = qual.rsplit(".", 1)
    path = os.path.join(os.environ.get("MCV_REPO", "/repo"), "circuitgraph", *modname.split(".")) + ".py"
    try:
        with open(path) as f:
            return f"def {func}(" in f.read()
    except OSError:
        return False


def _evidence(prop, tier, seed, mod, results, reported, wall, known=(), broken=None, only=None, n_unlisted=0):
    states = sum(r["states"] for r in results if r["job"].get("primary", True))
    transitions = sum(r["transitions"] for r in results)
    nontriv = sum(r["nontrivial"] for r in results if r["job"].get("primary", True))
    outcomes = {}
    extra = {}
    capped = []
    samples = []
    for r in results:
        for k, v in r["outcomes"].items():
            outcomes[k] = outcomes.get(k, 0) + v
        merge_extra(extra, r.get("extra", {}))
        if r.get("capped"):
            capped.append(f"{r['job'].get('sub')}#{r['job'].get('chunk')}")
    seen_sub = set()
    for r in results:
        sub = r["job"].get("sub")
        if sub in seen_sub or not r["samples"]:
            continue
        seen_sub.add(sub)
        samples.append({"sub": sub, "cases": r["samples"][:3]})
    subs = {}
    for r in results:
        s = subs.setdefault(str(r["job"].get("sub")), {"jobs": 0, "states": 0, "transitions": 0, "wall_s": 0.0})
        s["jobs"] += 1
        if r["job"].get("primary", True):
            s["states"] += r["states"]
        s["transitions"] += r["transitions"]
        s["wall_s"] = round(s["wall_s"] + r.get("wall", 0), 2)
    ev = {
        "property_id": prop,
        "tier": tier,
        "seed": seed,
        "level": "model_checking",
        "coverage": {
            "states": states,
            "transitions": transitions,
            "traces_validated_against_impl": transitions,
            "evaluations": transitions,
            "distinct_nontrivial": nontriv,
            "rule": getattr(mod, "RULE", ""),
            "samples": samples or [{"note": "no samples (broken run)"}],
            "exhaustive": bool(results) and not capped and not broken and not only,
            "distinct_outcomes": outcomes,
            "sub_spaces": subs,
            "bounds": mod.bounds(tier) if hasattr(mod, "bounds") else {},
            "hash_seeds": sorted({r["job"].get("hashseed", 0) for r in results}),
            "caps_hit": capped,
            "known_findings_observed": list(known),
            "unlisted_violation_signatures": n_unlisted,
            "explanation": "direct exhaustive exploration of the implementation inside the stated bounds; "
            "every explored case is an implementation trace, so traces_validated_against_impl == transitions",
            "extra": extra,
        },
        "assumptions": getattr(mod, "ASSUMPTIONS", []),
        "wall_s": round(wall, 2),
        "violations": len(reported),
    }
    if broken:
        ev["coverage"]["broken"] = broken[:5]
    if only:
        ev["coverage"]["restricted_to_sub"] = only
    os.makedirs(os.path.join(HERE, "evidence"), exist_ok=True)
    with open(os.path.join(HERE, "evidence", f"{prop}.json"), "w") as f:
        json.dump(ev, f, indent=1, sort_keys=True, default=str)
    return ev


if __name__ == "__main__":
    sys.exit(main())
