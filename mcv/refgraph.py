"""Reference graph algorithms on plain adjacency dicts (no networkx).

A graph is ``succ: dict node -> set(successors)`` with every node a key.
"""


def from_nx(g):
    return {n: set(g.succ[n]) for n in g.nodes}


def invert(succ):
    pred = {n: set() for n in succ}
    for u, vs in succ.items():
        for v in vs:
            pred[v].add(u)
    return pred


def reach(succ, n):
    """Proper descendants of n (n itself only when it lies on a cycle)."""
    seen = set()
    stack = list(succ[n])
    while stack:
        u = stack.pop()
        if u in seen:
            continue
        seen.add(u)
        stack.extend(succ[u])
    return seen


def closure(succ):
    return {n: reach(succ, n) for n in succ}


def is_cyclic(succ):
    return any(n in reach(succ, n) for n in succ)


def descendants_of_set(succ, ns):
    out = set()
    for n in ns:
        out |= reach(succ, n)
    return out


def longest_from(succ, n, memo=None):
    """Longest path length (edges) starting at n in a DAG."""
    if memo is None:
        memo = {}
    if n in memo:
        return memo[n]
    best = 0
    for s in succ[n]:
        best = max(best, 1 + longest_from(succ, s, memo))
    memo[n] = best
    return best


def longest_to_any(succ, ns):
    """max over n in ns, over paths from n, of the path length."""
    memo = {}
    return max(longest_from(succ, n, memo) for n in ns)


def levels(succ):
    """Longest distance from any source (a node without predecessors)."""
    pred = invert(succ)
    memo = {}

    def lv(n):
        if n in memo:
            return memo[n]
        memo[n] = 0 if not pred[n] else 1 + max(lv(p) for p in pred[n])
        return memo[n]

    return {n: lv(n) for n in succ}


def is_topo_order(succ, order):
    order = list(order)
    if sorted(order, key=str) != sorted(succ, key=str) or len(set(order)) != len(order):
        return False
    pos = {n: i for i, n in enumerate(order)}
    return all(pos[u] < pos[v] for u in succ for v in succ[u])


def reconvergent(succ):
    """Nodes with two distinct successors that reach (reflexively) a common node."""
    out = set()
    cl = closure(succ)
    for n, ss in succ.items():
        ss = sorted(ss, key=str)
        hit = False
        for i in range(len(ss)):
            for j in range(i + 1, len(ss)):
                a, b = ss[i], ss[j]
                if ({a} | cl[a]) & ({b} | cl[b]):
                    hit = True
        if hit:
            out.add(n)
    return out


def separates(succ, cut, n):
    """True if after deleting ``cut`` no source (no-pred node) reaches n.

    A source that is n itself counts as reaching n unless n is in the cut.
    """
    pred = invert(succ)
    if n in cut:
        return True
    # walk backwards from n avoiding the cut
    seen = {n}
    stack = [n]
    while stack:
        u = stack.pop()
        if not pred[u]:
            return False
        for p in pred[u]:
            if p in cut or p in seen:
                continue
            seen.add(p)
            stack.append(p)
    return True


def selftest():
    g = {"a": {"b", "c"}, "b": {"d"}, "c": {"d"}, "d": set(), "e": set()}
    assert reach(g, "a") == {"b", "c", "d"}
    assert not is_cyclic(g)
    assert longest_from(g, "a") == 2
    assert levels(g) == {"a": 0, "b": 1, "c": 1, "d": 2, "e": 0}
    assert reconvergent(g) == {"a"}
    assert is_topo_order(g, ["e", "a", "c", "b", "d"])
    assert not is_topo_order(g, ["b", "a", "c", "d", "e"])
    g2 = {"a": {"b"}, "b": {"a"}}
    assert is_cyclic(g2) and reach(g2, "a") == {"a", "b"}
    g3 = {"n": {"a", "b"}, "b": {"a"}, "a": set()}
    assert reconvergent(g3) == {"n"}
    g4 = {"n": {"a", "b"}, "a": set(), "b": set()}
    assert reconvergent(g4) == set()
    assert separates(g, {"b", "c"}, "d") and not separates(g, {"b"}, "d")
    assert separates(g, {"a"}, "d")
    return True
