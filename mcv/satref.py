"""Reference evaluation of CNFs (no solver) and control of the stand-in solver's answers."""
from mcv import refsim


def cnf_projection(clauses, nv, node_var, nodes_sorted):
    """Satisfying assignments of the clause list projected onto the node variables.

    node_var: node -> CNF variable id.  Variables are re-ordered so that node i (sorted order)
    is truth-table variable i and every other CNF variable comes after; returns a mask over
    2**len(nodes) valuations (same bit layout as refsim.consistent), or None when too large.
    """
    k = len(nodes_sorted)
    pos = {}
    for i, n in enumerate(nodes_sorted):
        v = node_var[n]
        if v in pos:
            # two nodes share one CNF variable: keep the first, the clash shows up as a mismatch
            continue
        pos[v] = i
    nxt = k
    for v in range(1, nv + 1):
        if v not in pos:
            pos[v] = nxt
            nxt += 1
    total = nxt
    if total > 18:
        return None
    full = refsim.full_mask(total)
    vm = {v: refsim.var_mask(p, total) for v, p in pos.items()}
    sat = full
    for cl in clauses:
        m = 0
        for l in cl:
            m |= vm[abs(l)] if l > 0 else (~vm[abs(l)] & full)
        sat &= m
        if not sat:
            break
    # nodes sharing a variable: force equality in the projection space is NOT done on purpose
    width = 1 << k
    chunk = (1 << width) - 1
    proj = 0
    while sat:
        proj |= sat & chunk
        sat >>= width
    return proj


def set_policy(pol):
    from pysat import solvers

    solvers.POLICY = pol
    solvers.reset_stats()


def policy_stats():
    from pysat import solvers

    return dict(solvers.STATS)
