"""Start-up self tests of the trusted base: refsim, refgraph, enumerators, SAT stand-in."""
import itertools
import os
import subprocess
import sys

HERE = os.path.dirname(os.path.dirname(os.path.abspath(__file__)))
sys.path.insert(0, HERE)
sys.path.insert(0, os.path.join(HERE, "vendor"))


def sat_selftest():
    from pysat.formula import CNF
    from pysat import solvers

    lits = [1, -1, 2, -2, 3, -3]
    clause_pool = [list(c) for k in (1, 2, 3) for c in itertools.combinations(lits, k)
                   if len({abs(l) for l in c}) == len(c)]
    n = 0
    for k in (0, 1, 2):
        for cls in itertools.combinations(clause_pool, k):
            f = CNF()
            for c in cls:
                f.append(c)
            f.append([3, -3])  # make nv == 3
            brute = [m for m in itertools.product([False, True], repeat=3)
                     if all(any(m[abs(l) - 1] == (l > 0) for l in c) for c in f.clauses)]
            for pol, want in ((("first",), brute[0] if brute else None), (("last",), brute[-1] if brute else None)):
                solvers.POLICY = pol
                s = solvers.Cadical153(bootstrap_with=f)
                ok = s.solve()
                assert ok == bool(brute)
                if ok:
                    m = s.get_model()
                    assert tuple(l > 0 for l in m) == want, (cls, pol, m, want)
            for j in range(len(brute)):
                solvers.POLICY = ("index", j)
                s = solvers.Cadical153(bootstrap_with=f)
                assert s.solve() and tuple(l > 0 for l in s.get_model()) == brute[j]
            n += 1
    solvers.POLICY = ("first",)
    # empty clause => unsat
    s = solvers.Cadical153(bootstrap_with=[[1, 2]])
    s.add_clause([])
    assert not s.solve()
    return n


def approxmc_selftest():
    import tempfile

    text = "c ind 1 2 0\np cnf 3 2\n1 2 0\n-3 1 0\n"
    with tempfile.NamedTemporaryFile("w", suffix=".cnf") as f:
        f.write(text)
        f.flush()
        out = subprocess.run([os.path.join(HERE, "vendor", "bin", "approxmc"), f.name],
                             capture_output=True, text=True)
    assert "s mc 3" in out.stdout, out.stdout + out.stderr


def main():
    from mcv import refsim, refgraph, space

    refsim.selftest()
    refgraph.selftest()
    space.selftest()
    n = sat_selftest()
    approxmc_selftest()
    print(f"selftest ok (refsim, refgraph, space, {n} CNFs vs brute force, approxmc stand-in)")
    return 0


if __name__ == "__main__":
    sys.exit(main())
