"""Known findings: narrow predicates over violation records.

known_findings.json (committed, never written at run time) has
  {"open":  [{"id", "property", "site", "mode", "predicate", "params", "what", "example"}...],
   "fixed": ["fixed: property=<id> <commit> <what failed>", ...]}
A violation is a known finding only if property, site and mode match exactly
and the named predicate accepts its case.
"""
import json
import os

HERE = os.path.dirname(os.path.dirname(os.path.abspath(__file__)))
PATH = os.path.join(HERE, "known_findings.json")

PREDICATES = {}


def predicate(fn):
    PREDICATES[fn.__name__] = fn
    return fn


@predicate
def always(case, params):
    return True


@predicate
def case_field_equals(case, params):
    return all(case.get(k) == v for k, v in params.items())


@predicate
def case_flag(case, params):
    """The harness computed a structural flag for this case (e.g. 'synthetic_name_capture')."""
    return bool(case.get("flags")) and params["flag"] in case["flags"]


@predicate
def text_sha1_in(case, params):
    """The failing program text is one of the listed ones (sha1 prefix of the exact text)."""
    import hashlib

    t = case.get("text")
    if t is None:
        return False
    return hashlib.sha1(t.encode()).hexdigest()[:12] in params["sha1"]


def load():
    if not os.path.exists(PATH):
        return {"open": [], "fixed": []}
    with open(PATH) as f:
        return json.load(f)


def classify(prop, viol, db=None):
    db = db or load()
    for ent in db.get("open", []):
        if ent["property"] != prop:
            continue
        if ent.get("site") not in (None, viol["site"]):
            continue
        if ent.get("mode") not in (None, viol["mode"]):
            continue
        pred = PREDICATES[ent.get("predicate", "always")]
        try:
            if pred(viol["case"], ent.get("params", {})):
                return ent
        except Exception:
            continue
    return None
