"""Explicit-state breadth-first search over live objects.

A transition clones the live object, applies one operation from a finite menu
(catching any exception), and hands (before, op, after, exception) to the
transition check; every new state is handed to the state invariant.  States are
deduplicated by a canonical key that keeps every observable field, so merging
is exact.
"""
from collections import deque


def bfs(seeds, clone, key, menu, apply_op, depth, on_state=None, on_trans=None, stop=None, hist_key=None):
    """seeds: list of (label, obj, hist) ; hist is a hashable history variable.
    menu(obj, hist) -> iterable of ops (JSON-able)
    apply_op(obj, op, hist) -> (exc or None, new_hist)   (mutates obj)
    Returns dict(states=, transitions=, max_depth=, depth_hist=).
    """
    seen = {}
    q = deque()
    stats = {"states": 0, "transitions": 0, "max_depth": 0, "by_depth": {}}
    for label, obj, hist in seeds:
        k = (key(obj), hist)
        if k in seen:
            continue
        seen[k] = True
        stats["states"] += 1
        stats["by_depth"][0] = stats["by_depth"].get(0, 0) + 1
        if on_state:
            on_state(obj, hist, [("seed", label)])
        q.append((obj, hist, [("seed", label)], 0))
    while q:
        obj, hist, trace, d = q.popleft()
        if d >= depth:
            continue
        if stop and stop():
            stats["capped"] = True
            break
        for op in menu(obj, hist):
            nxt = clone(obj)
            exc, nhist = apply_op(nxt, op, hist)
            stats["transitions"] += 1
            ntrace = trace + [op]
            if on_trans:
                on_trans(obj, hist, op, nxt, nhist, exc, ntrace)
            k = (key(nxt), nhist)
            if k in seen:
                continue
            seen[k] = True
            stats["states"] += 1
            stats["max_depth"] = max(stats["max_depth"], d + 1)
            stats["by_depth"][d + 1] = stats["by_depth"].get(d + 1, 0) + 1
            if on_state:
                on_state(nxt, nhist, ntrace)
            q.append((nxt, nhist, ntrace, d + 1))
    return stats
