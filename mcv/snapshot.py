"""Deep snapshots, canonical keys and independent clones of a live Circuit."""
import networkx as nx


def snap(c):
    """Full deep snapshot: every attribute of every node, edges, name, registry."""
    g = c.graph
    nodes = tuple(sorted((str(n), tuple(sorted((str(k), repr(v)) for k, v in g.nodes[n].items()))) for n in g.nodes))
    edges = tuple(sorted((str(u), str(v), tuple(sorted((str(k), repr(x)) for k, x in d.items()))) for u, v, d in g.edges(data=True)))
    bbs = tuple(
        sorted(
            (str(k), id(b), str(getattr(b, "name", None)), tuple(sorted(b.input_set)), tuple(sorted(b.output_set)))
            for k, b in c.blackboxes.items()
        )
    )
    return (c.name, nodes, edges, bbs)


def key(c):
    """Canonical state key: everything a property can observe, BlackBox identity dropped."""
    g = c.graph
    nodes = tuple(sorted((n, g.nodes[n].get("type"), bool(g.nodes[n].get("output", False))) for n in g.nodes))
    edges = tuple(sorted(g.edges))
    bbs = tuple(sorted((k, b.name, tuple(sorted(b.input_set)), tuple(sorted(b.output_set))) for k, b in c.blackboxes.items()))
    return (nodes, edges, bbs) + hidden_key(c)


_PUBLIC = ("graph", "blackboxes", "name")


def hidden_key(c):
    """Instance attributes beyond graph / blackboxes / name (none on the unmodified tree).  A change that keeps a
    dirty flag or a memo on the object gives two states with one visible circuit different futures, so they must not
    be merged; on the unmodified tree this is () and the key is what it always was."""
    extra = {k: v for k, v in vars(c).items() if k not in _PUBLIC}
    if not extra:
        return ()
    return (tuple(sorted((k, repr(v)) for k, v in extra.items())),)


def clone(c, cg=None):
    """Independent copy that does not go through Circuit.copy().  Hidden instance attributes (see hidden_key) are
    carried over by deep copy: the clone stands for the same object after the same history."""
    if cg is None:
        import circuitgraph as cg
    g = nx.DiGraph()
    for n in c.graph.nodes:
        g.add_node(n, **dict(c.graph.nodes[n]))
    for u, v in c.graph.edges:
        g.add_edge(u, v)
    out = cg.Circuit(name=c.name)
    out.graph = g
    out.blackboxes = dict(c.blackboxes)
    for k, v in vars(c).items():
        if k not in _PUBLIC:
            import copy
            out.__dict__[k] = copy.deepcopy(v)
    return out


def to_desc(c):
    """JSON form of a circuit (for replay files / samples)."""
    g = c.graph
    return {
        "name": c.name,
        "nodes": [[n, g.nodes[n].get("type"), sorted(g.pred[n]), bool(g.nodes[n].get("output", False))] for n in sorted(g.nodes)],
        "bbs": [[k, b.name, sorted(b.input_set), sorted(b.output_set)] for k, b in sorted(c.blackboxes.items())],
    }


def from_raw(desc, cg=None):
    """Build a circuit *directly on the graph* from a to_desc()-style record
    (no legality checks; pins are plain nodes)."""
    if cg is None:
        import circuitgraph as cg
    c = cg.Circuit(name=desc.get("name", "top"))
    for n, t, _fi, out in desc["nodes"]:
        if t is None:
            c.graph.add_node(n, output=out)
        else:
            c.graph.add_node(n, type=t, output=out)
    for n, _t, fi, _o in desc["nodes"]:
        for f in fi:
            c.graph.add_edge(f, n)
    for ent in desc.get("bbs", []):
        k, name, ins, outs = ent[:4]
        c.blackboxes[k] = cg.BlackBox(name, list(ins), list(outs))
    return c
