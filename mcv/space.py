"""Bounded enumerators and the plain-data circuit description they produce.

A *desc* is JSON-serialisable (so it can go straight into a replay file):

    {"name": str,
     "nodes": [[name, type, [fanin names], is_output], ...],
     "bbs":   [[inst, bbname, [input pins], [output pins], {pin: net}], ...]}

``build(desc)`` constructs the live ``circuitgraph.Circuit`` through the public
API only (add / connect / add_blackbox).
"""
import itertools

MULTI = ("and", "nand", "or", "nor", "xor", "xnor")
SINGLE = ("buf", "not")
ALL_GATES = SINGLE + MULTI
INPUT_NAMES = ["a", "b", "c", "d", "e", "f"]


def build(desc, cg=None, order=None):
    """order: None (desc order), "rev" (reverse insertion order) or a list of indices."""
    if cg is None:
        import circuitgraph as cg
    if desc.get("raw"):
        return build_raw(desc, cg)
    c = cg.Circuit(name=desc.get("name", "top"))
    nodes = desc["nodes"]
    if order == "rev":
        nodes = list(reversed(nodes))
    elif order:
        nodes = [desc["nodes"][i] for i in order]
    for name, t, _fi, out in nodes:
        c.add(name, t, output=bool(out))
    for name, _t, fi, _out in desc["nodes"]:
        for f in fi:
            c.connect(f, name)
    for inst, bbname, ins, outs, conn in desc.get("bbs", []):
        c.add_blackbox(cg.BlackBox(bbname, list(ins), list(outs)), inst, dict(conn))
    return c


FLIP = {"and": "or", "or": "and", "nand": "nor", "nor": "nand", "xor": "xnor", "xnor": "xor", "buf": "not", "not": "buf"}


def build_pre(desc, order=None):
    """(c, finish) for call / edit / call histories that end in exactly ``desc``.

    c is built from desc with ONE gate carrying the dual type; finish() repairs that gate in place with
    set_type, after which c is the circuit desc describes.  A harness calls the library on c, calls finish(),
    calls the library again on the same object and judges the second result with its unchanged oracle.
    Returns (None, None) when desc holds no gate with a dual type."""
    idx = [i for i, (_n, t, fi, _o) in enumerate(desc["nodes"]) if t in FLIP and fi]
    if not idx or desc.get("raw"):
        return None, None
    i = idx[len(idx) // 2]
    pre = dict(desc, nodes=[list(x) for x in desc["nodes"]])
    name, t = pre["nodes"][i][0], pre["nodes"][i][1]
    pre["nodes"][i][1] = FLIP[t]
    c = build(pre, order=order)
    return c, (lambda: c.set_type(name, t))


def scramble(obj, _depth=0):
    """Edit, in place, whatever a library call returned (circuits anywhere inside tuples / lists / dicts; plain
    containers are emptied afterwards) - what a caller is free to do with a result it owns."""
    if _depth > 3 or obj is None or isinstance(obj, (str, int, float, bool)):
        return
    g = getattr(obj, "graph", None)
    if g is not None and hasattr(obj, "blackboxes"):
        for n in sorted(g.nodes, key=str):
            t = g.nodes[n].get("type")
            if t in FLIP:
                g.nodes[n]["type"] = FLIP[t]
                break
        for n in sorted(g.nodes, key=str)[:2]:
            g.nodes[n]["output"] = not g.nodes[n].get("output", False)
        g.add_node("zz_scramble", type="input", output=True)
        plain = [n for n in sorted(g.nodes, key=str) if g.nodes[n].get("type") not in ("bb_input", "bb_output") and n != "zz_scramble"]
        if plain:
            g.remove_node(plain[-1])
        edges = sorted(g.edges, key=str)
        if edges:
            g.remove_edge(*edges[0])
        for k in sorted(obj.blackboxes)[:1]:
            obj.blackboxes.pop(k)
        return
    if isinstance(obj, dict):
        for v in list(obj.values()):
            scramble(v, _depth + 1)
        obj.clear()
    elif isinstance(obj, list):
        for v in list(obj):
            scramble(v, _depth + 1)
        del obj[:]
    elif isinstance(obj, set):
        for v in list(obj):
            scramble(v, _depth + 1)
        obj.clear()
    elif isinstance(obj, tuple):
        for v in obj:
            scramble(v, _depth + 1)
    elif hasattr(obj, "clauses") and isinstance(getattr(obj, "clauses"), list):
        del obj.clauses[:]


def call_with_history(desc, fn, variant=None):
    """Build ``desc`` and return (circuit, fn(circuit)) after a history on that one circuit object:

      None    : plain
      "rev"   : nodes inserted in reverse order
      "stale" : fn is first called while one gate still carries the dual type, the gate is repaired in place
                (set_type), and fn is called again - the second result is returned
      "alias" : fn is called, everything it returned is scrambled in place, and fn is called again

    In every case the circuit handed to the judged call is exactly the circuit of ``desc``, so the caller's
    oracle does not change.  Exceptions of the first call are swallowed (the judged call decides)."""
    if variant in (None, "rev"):
        c = build(desc, order=variant)
        return c, fn(c)
    if variant == "stale":
        c, finish = build_pre(desc)
        if c is None:
            c = build(desc)
            return c, fn(c)
        try:
            fn(c)
        except Exception:  # noqa: BLE001
            pass
        finish()
        return c, fn(c)
    if variant == "alias":
        c = build(desc)
        try:
            scramble(fn(c))
        except Exception:  # noqa: BLE001
            pass
        return c, fn(c)
    raise ValueError(variant)


VARIANTS = (None, "rev", "stale", "alias")


def build_raw(desc, cg):
    """Build directly on a networkx graph, the way Circuit(graph=g) users and the fast parser do: nodes that are
    not outputs carry NO 'output' attribute at all."""
    import networkx as nx

    g = nx.DiGraph()
    for name, t, _fi, out in desc["nodes"]:
        if out:
            g.add_node(name, type=t, output=True)
        else:
            g.add_node(name, type=t)
    for name, _t, fi, _out in desc["nodes"]:
        for f in fi:
            g.add_edge(f, name)
    bbs = {}
    for inst, bbname, ins, outs, conn in desc.get("bbs", []):
        bbs[inst] = cg.BlackBox(bbname, list(ins), list(outs))
        for p in ins:
            g.add_node(f"{inst}.{p}", type="bb_input")
            if p in conn:
                g.add_edge(conn[p], f"{inst}.{p}")
        for p in outs:
            g.add_node(f"{inst}.{p}", type="bb_output")
            if p in conn:
                g.add_edge(f"{inst}.{p}", conn[p])
    return cg.Circuit(name=desc.get("name", "top"), graph=g, blackboxes=bbs)


def rename(desc, mapping):
    m = lambda n: mapping.get(n, n)
    out = {
        "name": desc.get("name", "top"),
        "nodes": [[m(n), t, [m(f) for f in fi], o] for n, t, fi, o in desc["nodes"]],
    }
    if desc.get("bbs"):
        out["bbs"] = [
            [inst, bb, list(i), list(o), {p: m(v) for p, v in conn.items()}]
            for inst, bb, i, o, conn in desc["bbs"]
        ]
    return out


def subsets(items, lo, hi):
    for s in range(lo, hi + 1):
        yield from itertools.combinations(items, s)


def gate_choices(earlier, types, max_arity):
    """(type, fanin tuple) choices for one gate over candidate fan-in nodes."""
    out = []
    for t in types:
        if t in SINGLE:
            out += [(t, (e,)) for e in earlier]
        else:
            out += [(t, s) for s in subsets(earlier, 1, min(max_arity, len(earlier)))]
    return out


def circuits(I, G, types=ALL_GATES, max_arity=3, consts=(), min_gates=1):
    """All acyclic circuits with I inputs, consts, and min_gates..G gates.

    Yields lists of gate tuples (type, fanin index tuple); node indices are
    inputs 0..I-1, then constants, then gates in topological index order.
    """
    base = I + len(consts)
    for g in range(min_gates, G + 1):
        per = [gate_choices(range(base + k), types, max_arity) for k in range(g)]
        yield from itertools.product(*per)


def count_circuits(I, G, types=ALL_GATES, max_arity=3, consts=(), min_gates=1):
    base = I + len(consts)
    tot = 0
    for g in range(min_gates, G + 1):
        n = 1
        for k in range(g):
            n *= len(gate_choices(range(base + k), types, max_arity))
        tot += n
    return tot


def cyclic_circuits(I, G, types=ALL_GATES, max_arity=3):
    """All circuits with exactly G gates whose fan-in is any non-empty subset
    of the *other* nodes (no self-loops); includes acyclic ones."""
    n = I + G
    per = []
    for k in range(G):
        others = [i for i in range(n) if i != I + k]
        per.append(gate_choices(others, types, max_arity))
    yield from itertools.product(*per)


def node_names(I, consts, G):
    return INPUT_NAMES[:I] + [f"k{i}" for i in range(len(consts))] + [f"g{i}" for i in range(G)]


def to_desc(I, gates, consts=(), outputs="sinks", name="top"):
    """Turn an enumerated circuit into a desc.

    outputs: 'sinks' (gates/consts with no load; if none, the last node),
             'gates' (every gate), 'all' (every node), or an iterable of
             node indices.
    """
    G = len(gates)
    names = node_names(I, consts, G)
    base = I + len(consts)
    loaded = set()
    for _t, fi in gates:
        loaded.update(fi)
    if outputs == "sinks":
        outs = {i for i in range(I, base + G) if i not in loaded}
        if not outs:
            outs = {base + G - 1}
    elif outputs == "gates":
        outs = set(range(base, base + G))
    elif outputs == "all":
        outs = set(range(base + G))
    else:
        outs = set(outputs)
    nodes = [[names[i], "input", [], i in outs] for i in range(I)]
    nodes += [[names[I + i], consts[i], [], (I + i) in outs] for i in range(len(consts))]
    for k, (t, fi) in enumerate(gates):
        nodes.append([names[base + k], t, [names[f] for f in fi], (base + k) in outs])
    return {"name": name, "nodes": nodes}


def dags(n):
    """All DAGs on n topologically indexed nodes, as edge lists (i < j)."""
    pairs = [(i, j) for i in range(n) for j in range(i + 1, n)]
    for m in range(1 << len(pairs)):
        yield [p for b, p in enumerate(pairs) if (m >> b) & 1]


def digraphs(n):
    """All digraphs without self-loops on n nodes."""
    pairs = [(i, j) for i in range(n) for j in range(n) if i != j]
    for m in range(1 << len(pairs)):
        yield [p for b, p in enumerate(pairs) if (m >> b) & 1]


def chunk(it, i, n):
    """Every n-th element of iterator ``it`` starting at i, with its index."""
    for idx, x in enumerate(it):
        if idx % n == i:
            yield idx, x


def selftest():
    assert count_circuits(2, 2, min_gates=2) == 1056
    assert count_circuits(3, 2, min_gates=2) == 4416
    assert sum(1 for _ in circuits(2, 2, min_gates=2)) == 1056
    assert sum(1 for _ in dags(4)) == 64
    assert sum(1 for _ in digraphs(3)) == 64
    return True


def typed_dag_desc(n, edges, kinds, outs, inst="u", name="top"):
    """Desc for a DAG whose node i has kind kinds[i]:
    'input' | '0' | '1' | 'x' | a gate type | 'bbout' | 'bbin'.
    Non-pin nodes are called n<i>; pins are <inst>.p<i> of one blackbox 'bbx'."""
    nm = {i: (f"{inst}.p{i}" if k in ("bbout", "bbin") else f"n{i}") for i, k in enumerate(kinds)}
    nodes = []
    conn = {}
    ins, outs_p = [], []
    for i, k in enumerate(kinds):
        if k == "bbout":
            outs_p.append(f"p{i}")
            for u, v in edges:
                if u == i:
                    conn[f"p{i}"] = nm[v]
        elif k == "bbin":
            ins.append(f"p{i}")
            for u, v in edges:
                if v == i:
                    conn[f"p{i}"] = nm[u]
        else:
            fi = [nm[u] for u, v in edges if v == i and kinds[u] != "bbout"]
            nodes.append([nm[i], k, fi, i in outs])
    d = {"name": name, "nodes": nodes}
    if ins or outs_p:
        d["bbs"] = [[inst, "bbx", ins, outs_p, conn]]
    return d, nm


def degrees(n, edges):
    indeg = [0] * n
    outdeg = [0] * n
    succ = [[] for _ in range(n)]
    pred = [[] for _ in range(n)]
    for u, v in edges:
        indeg[v] += 1
        outdeg[u] += 1
        succ[u].append(v)
        pred[v].append(u)
    return indeg, outdeg, succ, pred
