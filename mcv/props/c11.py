"""C11 - sensitivity analyses agree with their definitions.

Sub-spaces
  transforms : sensitization_transform (all nodes n, default endpoints and every non-empty endpoint
               subset that has n in its fan-in) and sensitivity_transform (all nodes with >= 1
               startpoint) over the enumerated circuit space - decided by refsim alone.
  props      : props.sensitize / sensitivity / influence(approx=False) / avg_sensitivity over a
               smaller space and over single cones with 1..5 (8) startpoints, under enumerated
               solver answers.
Oracle: definitions evaluated with refsim (n forced to its complement / startpoint variable flipped).
"""
import itertools

from mcv import common, refsim, satref, space
from mcv.common import Acc

ID = "C11"
MECHANISM = ["tx.sensitization_transform", "tx.sensitivity_transform", "props.sensitivity", "props.influence",
             "props.avg_sensitivity", "props.sensitize", "logic.popcount"]
RULE = ("case = (circuit, node[, endpoints]) per function; distinct = distinct tuple; non-trivial = the sensitisation "
        "table is neither all-zero nor all-one / the sensitivity is strictly between 0 and |startpoints|")
ASSUMPTIONS = ["SAT-backed functions run on the vendored DPLL stand-in with enumerated answers"]


def bounds(tier):
    q = tier == "quick"
    return {"transforms": [[2, 2, 3], [3, 2, 3], [1, 2, 3]] if q else [[2, 2, 3], [3, 2, 4], [1, 3, 3], [2, 3, 3]],
            "props": [[2, 2, 3], [3, 1, 3], [3, 2, 2]] if q else [[2, 2, 3], [3, 1, 3], [3, 2, 3]],
            "props_reduced": [] if q else [[2, 3, 2, ("and", "xor", "not")]],
            "cones": list(range(1, 6)) if q else list(range(1, 9))}


def jobs(tier, seed):
    n = 16 if tier == "quick" else 96
    js = [{"sub": "transforms", "chunk": i, "of": n} for i in range(n)]
    m = 48 if tier == "quick" else 192
    js += [{"sub": "props", "chunk": i, "of": m} for i in range(m)]
    js += [{"sub": "cones", "k": k} for k in bounds(tier)["cones"]]
    js.append({"sub": "transforms", "chunk": 0, "of": n, "hashseed": 1 + seed % 1000, "primary": False})
    js.append({"sub": "props", "chunk": 0, "of": m, "hashseed": 1 + seed % 1000, "primary": False})
    return js


def corpus(specs):
    for I, G, ar in specs:
        for gates in space.circuits(I, G, max_arity=ar, min_gates=1):
            yield space.to_desc(I, gates, outputs="gates")
    # outputs that are inputs; constants
    for gates in space.circuits(2, 1, max_arity=2, min_gates=1):
        yield space.to_desc(2, gates, outputs="all")
    for gates in space.circuits(1, 2, max_arity=2, consts=("0", "1"), min_gates=2):
        yield space.to_desc(1, gates, consts=("0", "1"), outputs="gates")


def flip_var(t, i, k):
    """Truth table t over k variables with variable i complemented."""
    m = refsim.var_mask(i, k)
    blk = 1 << i
    full = refsim.full_mask(k)
    return ((t & m) >> blk) | ((t << blk) & m & full)


def cone_of(c, ns):
    seen = set(ns)
    stack = list(ns)
    while stack:
        u = stack.pop()
        for p in c.graph.pred[u]:
            if p not in seen:
                seen.add(p)
                stack.append(p)
    return seen


def descend(c, n):
    seen = set()
    stack = [n]
    while stack:
        u = stack.pop()
        for s in c.graph.succ[u]:
            if s not in seen:
                seen.add(s)
                stack.append(s)
    return seen


def ref_sensitization(c, n, eps, ins):
    """Table over ``ins`` of 'inverting n changes some endpoint in eps'."""
    assign, full = refsim.free_assign(ins)
    v = refsim.evaluate(c.graph, assign, full, only=cone_of(c, set(eps) | {n}))
    inv = lambda r, f: (~r[0] & f, 0)
    if n in assign:
        a2 = dict(assign)
        a2[n] = (~assign[n][0] & full, 0)
        v2 = refsim.evaluate(c.graph, a2, full, only=cone_of(c, set(eps) | {n}))
    else:
        v2 = refsim.evaluate(c.graph, assign, full, force={n: inv}, only=cone_of(c, set(eps) | {n}))
    out = 0
    for e in eps:
        out |= v[e][0] ^ v2[e][0]
    return out, full


def check_sensitization(acc, desc, n, eps_arg, repeat=False):
    import circuitgraph as cg

    case = {"kind": "sensitization", "desc": desc, "node": n, "endpoints": eps_arg, "repeat": repeat}
    c = space.build(desc)
    outs = sorted(c.outputs())
    eps = sorted(eps_arg) if eps_arg else outs
    acc.transitions += 1
    try:
        ep_obj = list(eps_arg) if eps_arg else None
        if repeat == "stale":
            c2, finish = space.build_pre(desc)
            if c2 is not None:
                c = c2
                try:
                    cg.tx.sensitization_transform(c, n, endpoints=ep_obj)
                except Exception:  # noqa: BLE001
                    pass
                finish()
        elif isinstance(repeat, list):
            # an earlier call restricted to other endpoints, on the same circuit object, must not matter
            cg.tx.sensitization_transform(c, n, endpoints=list(repeat))
        elif repeat:
            space.scramble(cg.tx.sensitization_transform(c, n, endpoints=ep_obj))   # same circuit and same endpoints object again
            if eps_arg and ep_obj != list(eps_arg):
                acc.violation("sensitization", "endpoints-argument-modified", case, f"{list(eps_arg)} -> {ep_obj}")
                return None
        m = cg.tx.sensitization_transform(c, n, endpoints=ep_obj)
    except Exception as e:  # noqa: BLE001
        acc.violation("sensitization", f"raises:{common.exc_name(e)}", case, repr(e))
        return None
    cone_in = sorted(i for i in c.inputs() if i in cone_of(c, set(eps) | {n}))
    if not set(cone_in) <= set(m.inputs()) or not set(m.inputs()) <= set(c.inputs()):
        acc.violation("sensitization", "wrong-inputs", case, f"{sorted(m.inputs())}: must contain {cone_in} and only inputs of the circuit")
        return None
    ins = sorted(c.inputs())
    if set(m.outputs()) != {"sat"}:
        acc.violation("sensitization", "wrong-outputs", case, sorted(m.outputs()))
        return None
    want, full = ref_sensitization(c, n, eps, ins)
    try:
        assign, _f = refsim.free_assign(ins)
        val = refsim.evaluate(m.graph, {k: v for k, v in assign.items() if k in m.graph}, full)
        tabs = {k: v[0] for k, v in val.items()}
        if val["sat"][1]:
            raise refsim.RefError("sat is X")
    except (refsim.RefError, KeyError) as e:
        acc.violation("sensitization", "result-unevaluable", case, repr(e))
        return None
    acc.observe(hex(want))
    if tabs["sat"] != want:
        d = tabs["sat"] ^ want
        j = (d & -d).bit_length() - 1
        acc.violation("sensitization", "sat-table-wrong", case,
                      f"sat={(tabs['sat'] >> j) & 1} at valuation {{{', '.join(f'{x}={(j >> i) & 1}' for i, x in enumerate(ins))}}}")
        return None
    acc.outcome("ok")
    return want not in (0, full)


def ref_sensitivity(c, n):
    """(startpoints, {s: dif table}, count tables per bit, max count) over startpoints(n)."""
    sp = sorted(i for i in c.inputs() if i in cone_of(c, {n}))
    k = len(sp)
    assign, full = refsim.free_assign(sp)
    v = refsim.evaluate(c.graph, assign, full, only=cone_of(c, {n}))
    t = v[n][0]
    dif = {s: t ^ flip_var(t, i, k) for i, s in enumerate(sp)}
    counts = [sum((dif[s] >> j) & 1 for s in sp) for j in range(1 << k)]
    return sp, dif, counts, full


def check_sens_transform(acc, desc, n, repeat=False):
    import circuitgraph as cg

    case = {"kind": "sens_transform", "desc": desc, "node": n, "repeat": repeat}
    c = space.build(desc)
    sp, dif, counts, full = ref_sensitivity(c, n)
    if not sp:
        return None
    acc.transitions += 1
    try:
        if repeat is True:
            # a caller is entitled to edit a block the library handed out; later transforms must not see the edit
            pc = cg.logic.popcount(len(sp))
            for g in sorted(pc.nodes()):
                if pc.type(g) in ("and", "or", "xor"):
                    pc.set_type(g, {"and": "or", "or": "xor", "xor": "and"}[pc.type(g)])
            space.scramble(cg.tx.sensitivity_transform(c, n))
        if repeat == "stale":
            c2, finish = space.build_pre(desc)
            if c2 is not None:
                c = c2
                try:
                    cg.tx.sensitivity_transform(c, n)
                except Exception:  # noqa: BLE001
                    pass
                finish()
        s = cg.tx.sensitivity_transform(c, n)
    except Exception as e:  # noqa: BLE001
        acc.violation("sens_transform", f"raises:{common.exc_name(e)}", case, repr(e))
        return None
    if not set(sp) <= set(s.inputs()) or not set(s.inputs()) <= set(c.inputs()):
        acc.violation("sens_transform", "wrong-inputs", case, f"{sorted(s.inputs())}: must contain {sp} and only inputs of the circuit")
        return None
    try:
        assign, _f = refsim.free_assign(sp)
        for extra in set(s.inputs()) - set(sp):
            assign[extra] = (0, 0)
        val = refsim.evaluate(s.graph, assign, full)
        tabs = {k: v[0] for k, v in val.items()}
    except (refsim.RefError, KeyError) as e:
        acc.violation("sens_transform", "result-unevaluable", case, repr(e))
        return None
    outs = set(s.outputs())
    for x in sp:
        o = f"dif_out_{x}"
        if o not in outs:
            acc.violation("sens_transform", "missing-dif-output", case, o)
            return None
        if tabs[o] != dif[x]:
            acc.violation("sens_transform", "dif-table-wrong", case, f"{o} is not 'flipping {x} flips {n}'")
            return None
    bits = sorted((int(o[len("sen_out_"):]), o) for o in outs if o.startswith("sen_out_"))
    if [b for b, _ in bits] != list(range(len(bits))) or (1 << len(bits)) <= len(sp):
        acc.violation("sens_transform", "sen_out-bits-wrong", case, [o for _, o in bits])
        return None
    for j, cnt in enumerate(counts):
        got = sum(((tabs[o] >> j) & 1) << b for b, o in bits)
        if got != cnt:
            acc.violation("sens_transform", "count-wrong", case, f"valuation index {j}: sen_out encodes {got}, expected {cnt}")
            return None
    acc.observe(counts)
    acc.outcome("ok")
    return 0 < max(counts) < len(sp) or min(counts) != max(counts)


ANSWERS = [("first",), ("index", 1), ("last",)]


def check_props(acc, desc, n, do_sensitize=True, variant=None):
    """sensitivity / influence / avg_sensitivity / sensitize for node n."""
    import circuitgraph as cg

    c0 = space.build(desc)
    sp, dif, counts, full = ref_sensitivity(c0, n)
    if not sp:
        return None
    k = len(sp)
    nt = min(counts) != max(counts)
    hist = lambda fn: space.call_with_history(desc, fn, variant)[1]
    for pol in ANSWERS:
        case = {"kind": "props", "desc": desc, "node": n, "policy": list(pol), "variant": variant}
        # sensitivity
        satref.set_policy(pol)
        acc.transitions += 1
        try:
            got = hist(lambda x: cg.props.sensitivity(x, n))
            want = 1 if n in sp else max(counts)
            if got != want:
                acc.violation("props", "sensitivity-wrong", case, f"sensitivity({n}) = {got}, expected {want}")
        except Exception as e:  # noqa: BLE001
            acc.violation("props", f"sensitivity-raises:{common.exc_name(e)}", case, repr(e))
        if pol != ("index", 1):
            acc.transitions += 2
            want_inf = {s: refsim.popcount(dif[s]) / (1 << k) for s in sp}
            try:
                satref.set_policy(pol)
                inf = hist(lambda x: cg.props.influence(x, n, approx=False))
                if set(inf) != set(sp) or any(inf[s] != want_inf[s] for s in sp):
                    acc.violation("props", "influence-wrong", case, f"influence({n}) = {inf}, expected {want_inf}")
                satref.set_policy(pol)
                av = hist(lambda x: cg.props.avg_sensitivity(x, n, approx=False))
                if abs(av - sum(want_inf.values())) > 1e-12:
                    acc.violation("props", "avg_sensitivity-wrong", case, f"avg_sensitivity({n}) = {av}, expected {sum(want_inf.values())}")
            except Exception as e:  # noqa: BLE001
                acc.violation("props", f"influence-raises:{common.exc_name(e)}", case, repr(e))
        if do_sensitize:
            ins = sorted(c0.inputs())
            outs = sorted(c0.outputs())
            if outs:
                want, f2 = ref_sensitization(c0, n, outs, ins)
                satref.set_policy(pol)
                acc.transitions += 1
                try:
                    r = hist(lambda x: cg.props.sensitize(x, n))
                    if r is None:
                        if want:
                            acc.violation("props", "sensitize-none-but-sensitisable", case, "")
                    else:
                        if not set(r) <= set(ins):
                            acc.violation("props", "sensitize-wrong-keys", case, str(r))
                        else:
                            # inputs the answer leaves out are don't-cares: every completion must sensitise
                            agree = f2
                            for i, x in enumerate(ins):
                                if x in r:
                                    mk = refsim.var_mask(i, len(ins))
                                    agree &= mk if r[x] else ~mk & f2
                            if agree & ~want & f2:
                                acc.violation("props", "sensitize-not-sensitising", case, str(r))
                except Exception as e:  # noqa: BLE001
                    acc.violation("props", f"sensitize-raises:{common.exc_name(e)}", case, repr(e))
    satref.set_policy(("first",))
    acc.observe(n, counts)
    acc.outcome("ok")
    return nt


def check_props_multi(acc, desc, pair):
    """influence / avg_sensitivity with a LIST of nodes: one entry per node, each as for that node alone."""
    import circuitgraph as cg

    c0 = space.build(desc)
    want = {}
    for n in pair:
        sp, dif, _counts, _full = ref_sensitivity(c0, n)
        if not sp:
            return None
        want[n] = {s: refsim.popcount(dif[s]) / (1 << len(sp)) for s in sp}
    case = {"kind": "props-multi", "desc": desc, "nodes": list(pair)}
    acc.transitions += 2
    satref.set_policy(("first",))
    try:
        inf = cg.props.influence(space.build(desc), list(pair), approx=False)
        if len(pair) == 1 and inf and not isinstance(next(iter(inf.values())), dict):
            inf = {pair[0]: inf}          # the result for a single node is documented to come back unwrapped
        if {k: dict(v) for k, v in inf.items()} != want:
            acc.violation("props", "influence-list-wrong", case, f"influence({list(pair)}) = {inf}, expected {want}")
            return True
        av = cg.props.avg_sensitivity(space.build(desc), list(pair), approx=False)
        wav = {n: sum(v.values()) for n, v in want.items()}
        if len(pair) == 1 and isinstance(av, (int, float)):
            av = {pair[0]: av}            # either form is accepted for a one-element list
        if set(av) != set(wav) or any(abs(av[n] - wav[n]) > 1e-12 for n in wav):
            acc.violation("props", "avg_sensitivity-list-wrong", case, f"avg_sensitivity({list(pair)}) = {av}, expected {wav}")
    except Exception as e:  # noqa: BLE001
        acc.violation("props", f"influence-list-raises:{common.exc_name(e)}", case, repr(e))
    return True


def nonempty_subsets(xs, cap=3):
    xs = sorted(xs)
    for r in range(1, min(cap, len(xs)) + 1):
        for s in itertools.combinations(xs, r):
            yield list(s)


def run_transforms(job, acc):
    for _idx, desc in space.chunk(corpus(bounds(job["tier"])["transforms"]), job["chunk"], job["of"]):
        c = space.build(desc)
        outs = set(c.outputs())
        for n in sorted(c.graph.nodes):
            if c.graph.nodes[n]["type"] in ("0", "1"):
                continue
            acc.states += 1
            nt = False
            if outs & (descend(c, n) | {n}):
                nt |= bool(check_sensitization(acc, desc, n, None))
            down = sorted(outs & descend(c, n))
            if n in outs:
                # n itself among the selected endpoints: inverting n always changes it
                nt |= bool(check_sensitization(acc, desc, n, [n]))
                if down:
                    nt |= bool(check_sensitization(acc, desc, n, [n, down[0]]))
            for eps in nonempty_subsets(down):
                nt |= bool(check_sensitization(acc, desc, n, eps))
            if down and (_idx // job["of"]) % 4 == 0:
                check_sensitization(acc, desc, n, down[:1], repeat=True)
                check_sensitization(acc, desc, n, None, repeat=True)
                check_sensitization(acc, desc, n, None, repeat="stale")
                check_sensitization(acc, desc, n, down[:1], repeat="stale")
                for e in down:
                    check_sensitization(acc, desc, n, None, repeat=[e])   # restricted call first, then the default
            # endpoint sets that contain outputs not downstream of n are legal too as long as n is in the fan-in
            other = sorted(outs - set(down) - {n})
            if down and other:
                nt |= bool(check_sensitization(acc, desc, n, [down[0], other[0]]))
            nt |= bool(check_sens_transform(acc, desc, n))
            if (_idx // job["of"]) % 4 == 0:
                check_sens_transform(acc, desc, n, repeat=True)
                check_sens_transform(acc, desc, n, repeat="stale")
            if nt:
                acc.nontrivial += 1
        acc.sample({"desc": desc})
        if acc.out_of_time():
            break


def props_corpus(tier):
    yield from corpus(bounds(tier)["props"])
    for I, G, ar, types in bounds(tier)["props_reduced"]:
        for gates in space.circuits(I, G, types=types, max_arity=ar, min_gates=G):
            yield space.to_desc(I, gates, outputs="gates")


def run_props(job, acc):
    for _idx, desc in space.chunk(props_corpus(job["tier"]), job["chunk"], job["of"]):
        c = space.build(desc)
        for n in sorted(c.graph.nodes):
            if c.graph.nodes[n]["type"] in ("0", "1"):
                continue
            acc.states += 1
            if check_props(acc, desc, n):
                acc.nontrivial += 1
            if (_idx // job["of"]) % 4 == 0:
                for v in ("stale", "alias"):
                    acc.states += 1
                    check_props(acc, desc, n, variant=v)
        if (_idx // job["of"]) % 2 == 0:
            gates = [n for n in sorted(c.graph.nodes) if c.graph.nodes[n]["type"] not in ("0", "1", "input")]
            for pair in itertools.permutations(gates, 2):
                if check_props_multi(acc, desc, pair):
                    acc.states += 1
            for n1 in sorted(c.graph.nodes):
                if c.graph.nodes[n1]["type"] not in ("0", "1") and check_props_multi(acc, desc, (n1,)):
                    acc.states += 1       # a one-element list
        acc.sample({"desc": desc})
        if acc.out_of_time():
            break


def cone_descs(k):
    names = [f"i{j}" for j in range(k)]
    ins = [[x, "input", [], False] for x in names]
    for t in space.MULTI:
        if k >= 1:
            yield {"name": "top", "nodes": ins + [["o", t, names, True]]}
    if k >= 2:
        # functionally constant node with k startpoints: and(x, not x) or-ed over pairs
        nodes = list(ins)
        nodes.append(["ninv", "not", [names[0]], False])
        nodes.append(["z", "and", [names[0], "ninv"] + names[1:], True])
        yield {"name": "top", "nodes": nodes}
        # two-level: xor of first half and-ed with or of second half
        h = max(1, k // 2)
        nodes = list(ins)
        nodes.append(["p", "xor", names[:h], False])
        nodes.append(["q", "or", names[h:], False])
        nodes.append(["o", "and", ["p", "q"], True])
        yield {"name": "top", "nodes": nodes}
        nodes = list(ins)
        nodes.append(["p", "nand", names[:h], False])
        nodes.append(["q", "xnor", names[h:], False])
        nodes.append(["o", "nor", ["p", "q"], True])
        yield {"name": "top", "nodes": nodes}
    else:
        yield {"name": "top", "nodes": ins + [["ninv", "not", [names[0]], False], ["z", "and", [names[0], "ninv"], True]]}
        yield {"name": "top", "nodes": ins + [["k0", "0", [], False], ["z", "and", [names[0], "k0"], True]]}


def run_cones(job, acc):
    for desc in cone_descs(job["k"]):
        c = space.build(desc)
        for n in sorted(c.graph.nodes):
            t = c.graph.nodes[n]["type"]
            if t in ("0", "1", "input") and not (t == "input" and n == "i0"):
                continue
            acc.states += 1
            nt = bool(check_sens_transform(acc, desc, n))
            if job["k"] <= 6:
                nt |= bool(check_props(acc, desc, n, do_sensitize=job["k"] <= 5))
            if nt:
                acc.nontrivial += 1
        acc.sample({"desc": desc})


def run(job):
    common.setup_paths()
    acc = Acc(job)
    {"transforms": run_transforms, "props": run_props, "cones": run_cones}[job["sub"]](job, acc)
    return acc.result()


def replay(case, job):
    common.setup_paths()
    acc = Acc(job)
    if case["kind"] == "props-multi":
        check_props_multi(acc, case["desc"], tuple(case["nodes"]))
        return acc.result()
    k = case["kind"]
    if k == "sensitization":
        check_sensitization(acc, case["desc"], case["node"], case["endpoints"], repeat=case.get("repeat", False))
    elif k == "sens_transform":
        check_sens_transform(acc, case["desc"], case["node"], repeat=case.get("repeat", False))
    else:
        check_props(acc, case["desc"], case["node"], variant=case.get("variant"))
    return acc.result()
