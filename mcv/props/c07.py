"""C07 - the construction API never leaves an illegally wired circuit.

Explicit-state breadth-first search over the live Circuit.  Alphabet: add (default flags and
uid=True, with fan-in / fan-out lists incl. missing, duplicate and self-referential names, legal and
illegal types and names), connect / disconnect (single names and lists), remove, set_output,
add_blackbox (no / legal / illegal connections, unknown pin), add_subcircuit (two children, one
holding a blackbox; legal, illegal and unknown-port connections), fill_blackbox (matching and
non-matching child).  Seeds: the empty circuit and four generated circuits.
Invariant in EVERY state + per-transition checks (a raising call adds no edge and raises ValueError;
uid=True never touches an existing node).
"""
from mcv import common, explore, snapshot, space
from mcv.common import Acc

ID = "C07"
MECHANISM = ["circuit.add", "circuit.connect", "circuit.uid", "circuit.add_blackbox", "circuit.add_subcircuit",
             "circuit.fill_blackbox"]
RULE = ("BFS: state = canonical (nodes with type/output, edges, registry) + history variable 'pins removed by the caller'; "
        "states are counted per first-operation partition (a state reachable in two partitions counts twice); "
        "non-trivial = every state other than a seed state (reached by at least one API call)")
ASSUMPTIONS = ["exception class is demanded (ValueError) for add / connect / add_blackbox / add_subcircuit / fill_blackbox only; "
               "set_output, remove and disconnect on missing names follow networkx semantics and are not judged",
               "a node left behind by a rejected add is not a violation (the property speaks of edges)"]

SUPPORTED = ["buf", "and", "or", "xor", "not", "nand", "nor", "xnor", "0", "1", "x", "input", "bb_input", "bb_output"]


def bounds(tier):
    q = tier == "quick"
    return {"depth": 3 if q else 4, "names": ["a", "b"] if q else ["a", "b", "c"], "seed_circuits": 8}


def jobs(tier, seed):
    n = 32 if tier == "quick" else 96
    js = [{"sub": "bfs", "chunk": i, "of": n} for i in range(n)]
    js.append({"sub": "bfs", "chunk": 1, "of": n, "hashseed": 1 + seed % 1000, "primary": False})
    # a 29-operation core alphabet explored much deeper, one exact (fully de-duplicated) search per seed circuit
    js += [{"sub": "bfs-core", "seed_idx": i, "depth": 6 if tier == "quick" else 9} for i in range(len(seed_circuits()))]
    return js


# --- alphabet ------------------------------------------------------------------------------------------


def children():
    import circuitgraph as cg

    c1 = cg.Circuit("c1")
    c1.add("x", "input")
    c1.add("g", "not", fanin="x", output=True)
    c2 = cg.Circuit("c2")
    c2.add("x", "input")
    c2.add("w", "buf", output=True)
    c2.add_blackbox(cg.BlackBox("leaf", ["i"], ["o"]), "m", {"i": "x", "o": "w"})
    f1 = cg.Circuit("f1")  # matches BB(i -> o)
    f1.add("i", "input")
    f1.add("o", "not", fanin="i", output=True)
    f2 = cg.Circuit("f2")  # does not match
    f2.add("x", "input")
    f2.add("o", "buf", fanin="x", output=True)
    f3 = cg.Circuit("f3")  # matches, holds a blackbox
    f3.add("i", "input")
    f3.add("o", "buf", output=True)
    f3.add_blackbox(cg.BlackBox("leaf", ["i"], ["o"]), "m", {"i": "i", "o": "o"})
    f4 = cg.Circuit("f4")  # does not match: no input at all, but an internal gate named like the pin 'i'
    f4.add("k0", "0")
    f4.add("k1", "1")
    f4.add("i", "and", fanin=["k0", "k1"])
    f4.add("o", "buf", fanin="i", output=True)
    f5 = cg.Circuit("f5")  # matches, with an internal node x (spliced in as k_x)
    f5.add("i", "input")
    f5.add("x", "not", fanin="i")
    f5.add("o", "buf", fanin="x", output=True)
    return {"c1": c1, "c2": c2, "f1": f1, "f2": f2, "f3": f3, "f4": f4, "f5": f5}


def alphabet(names):
    U = list(names)
    ops = []
    types = ["input", "0", "x", "buf", "not", "and", "bb_input", "bb_output", "bogus"]
    for n in U[:2] + ["1x"]:
        for t in types:
            ops.append(["add", n, t, None, None, False])
    # fan-in / fan-out shapes on a fresh name and on an existing-name clash
    fshapes = [[U[0]], [U[0], U[1]], ["q"], ["SELF"], [U[0], U[0]]]
    for n in (U[1], U[-1]):
        for t in ("buf", "and", "input", "bb_input"):
            for fi in fshapes:
                ops.append(["add", n, t, fi, None, False])
        for t in ("buf", "and", "bb_output", "bb_input"):
            for fo in fshapes[:4]:
                ops.append(["add", n, t, None, fo, False])
        ops.append(["add", n, "and", ["q"], [U[0]], False])
        ops.append(["add", n, "and", [U[0]], ["q"], False])
        ops.append(["add", n, "buf", [U[0]], [U[0]], False])
    for n in U[:2]:
        for t in ("and", "input", "buf", "bogus"):
            ops.append(["add", n, t, None, None, True])
        ops.append(["add", n, "and", [U[0]], None, True])
        ops.append(["add", n, "buf", ["q"], [U[1]], True])
    pool = U + ["q", "k.i", "k.o"]
    for u in pool:
        for v in pool:
            ops.append(["connect", u, v])
    ops.append(["connect", [U[0], U[1]], U[-1]])
    ops.append(["connect", U[0], [U[1], U[-1]]])
    ops.append(["connect", [U[0], "q"], U[1]])
    # one call, several targets from a blackbox output pin (which may drive ONE buf only)
    ops.append(["connect", "k.o", [U[0], U[1]]])
    ops.append(["connect", "k.o", [U[1], U[1]]])
    ops.append(["add", "k.o", "bb_output", None, [U[0], U[1]], False])
    ops.append(["add_blackbox", "k", {"o": [U[0], U[1]]}])
    # one call, several sources of which a later one is illegal: nothing of the call may stay behind
    ops.append(["connect", [U[0], "k.i"], U[-1]])
    ops.append(["connect", ["k.i", U[0]], U[-1]])
    ops.append(["connect", [U[0], "k.o"], U[-1]])
    ops.append(["add", U[-1], "and", [U[0], "k.i"], None, False])
    ops.append(["add", "r", "and", [U[0], U[1], "k.i"], None, False])
    for u in U:
        for v in U:
            if u != v:
                ops.append(["disconnect", u, v])
    ops.append(["disconnect", "k.o", U[0]])
    for n in U + ["k.i", "k.o", "q"]:
        ops.append(["remove", n])
    for n in U[:2]:
        ops.append(["set_output", n, True])
        ops.append(["set_output", n, False])
    for conn in (None, {"i": U[0], "o": U[1]}, {"i": U[0], "o": U[0]}, {"zz": U[0]}, {"o": U[1], "i": "q"}, {"i": U[0], "zz": U[1]}):
        ops.append(["add_blackbox", "k", conn])
    ops.append(["add_blackbox", "2k", None])
    ops.append(["add_blackbox", "k", None, "leaf2"])       # pins k.m.i, k.o
    ops.append(["add_blackbox", "k.m", None])              # pins k.m.i (clashes with the former), k.m.o
    ops.append(["add_blackbox", "k", None, "odd"])         # a definition that lists pin 'o' as input AND output
    ops.append(["add_blackbox", "k", {"i": U[0]}, "odd"])
    ops.append(["add", "k.i", "buf", None, None, False])   # a plain node named like a pin
    ops.append(["add", "k.o", "and", [U[0]], None, False])
    ops.append(["add", "k.o", "bb_input", [U[0]], None, False])   # the output pin's name, as an input pin with a driver
    ops.append(["add", "k.i", "bb_output", None, None, False])
    for ch in ("c1", "c2"):
        for conn in (None, {"x": U[0]}, {"x": U[0], "g" if ch == "c1" else "w": U[1]}, {"nope": U[0]}, {"x": "q"},
                     {"g" if ch == "c1" else "w": U[0], "x": U[1]}):
            ops.append(["add_subcircuit", ch, "s", conn])
    ops.append(["add_subcircuit", "c2", "k", None])
    for ch in ("f1", "f2", "f3", "f4", "f5"):
        ops.append(["fill_blackbox", "k", ch])
    ops.append(["add", "k_x", "not", [U[0]], None, False])   # the name an internal node of f5 gets when k is filled
    ops.append(["fill_blackbox", "nok", "f1"])
    # self-referential arguments: the circuit itself as the child, and an empty name
    ops.append(["fill_blackbox", "k", "SELF"])
    ops.append(["add_subcircuit", "SELF", "s", None])
    ops.append(["add_subcircuit", "SELF", "s", {U[0]: U[1]}])
    ops.append(["add", "", "buf", None, None, False])
    ops.append(["add", "", "and", [U[0]], None, True])
    return ops


def core_alphabet():
    return [["add", "a", "input", None, None, False], ["add", "a", "buf", None, None, False], ["add", "b", "buf", None, None, False],
            ["add", "b", "and", None, None, False], ["add", "b", "not", ["a"], None, False], ["add", "b", "and", ["a"], ["a"], False],
            ["add", "b", "buf", ["q"], ["a"], False], ["add", "a", "and", None, None, True], ["add", "b", "x", None, None, False],
            ["connect", "a", "b"], ["connect", "b", "a"], ["connect", "a", "k.i"], ["connect", "k.o", "b"], ["connect", "k.o", "a"],
            ["connect", "b", "k.i"], ["connect", "k.i", "b"], ["connect", ["a", "b"], "b"],
            ["connect", "k.o", ["a", "b"]], ["connect", ["a", "k.i"], "b"],
            ["disconnect", "a", "b"], ["disconnect", "k.o", "b"], ["remove", "a"], ["remove", "k.i"], ["remove", "k.o"], ["set_output", "b", True],
            ["add_blackbox", "k", None], ["add_blackbox", "k", {"i": "a", "o": "b"}], ["add_blackbox", "k", {"i": "a", "zz": "b"}],
            ["add_subcircuit", "c1", "s", {"x": "a", "g": "b"}], ["add_subcircuit", "c2", "s", {"x": "a"}], ["add_subcircuit", "c2", "k", None],
            ["fill_blackbox", "k", "f1"], ["fill_blackbox", "k", "f3"], ["fill_blackbox", "k", "f2"], ["fill_blackbox", "s_m", "f1"],
            ["fill_blackbox", "k", "f4"], ["add_blackbox", "k", None, "leaf2"], ["add_blackbox", "k.m", None],
            ["add_blackbox", "k", None, "odd"],
            ["add", "k.i", "buf", None, None, False], ["add", "k.o", "bb_input", ["a"], None, False]]


def seed_circuits():
    descs = [
        {"name": "top", "nodes": []},
        {"name": "top", "nodes": [["a", "input", [], False], ["b", "buf", ["a"], True]]},
        {"name": "top", "nodes": [["a", "input", [], False], ["b", "and", ["a"], False]]},
        {"name": "top", "nodes": [["a", "input", [], False], ["b", "buf", [], True]],
         "bbs": [["k", "leaf", ["i"], ["o"], {"i": "a", "o": "b"}]]},
        {"name": "top", "nodes": [["a", "0", [], False], ["b", "not", ["a"], True]],
         "bbs": [["k", "leaf", ["i"], ["o"], {}]]},
        {"name": "top", "nodes": [["a", "buf", [], False], ["b", "buf", [], True]],
         "bbs": [["k", "leaf", ["i"], ["o"], {}]]},
        {"name": "top", "nodes": [["a", "input", [], False], ["b", "and", [], True]],
         "bbs": [["k", "leaf", ["i"], ["o"], {}]]},
        # the host's own interface matches the blackbox it holds (i -> o)
        {"name": "top", "nodes": [["i", "input", [], False], ["o", "buf", [], True]],
         "bbs": [["k", "leaf", ["i"], ["o"], {"i": "i", "o": "o"}]]},
    ]
    return descs


# --- semantics of one transition ------------------------------------------------------------------------


def do_op(c, op, kids):
    """Execute one op on c; returns the API's return value."""
    import circuitgraph as cg

    k = op[0]
    if k == "add":
        _k, n, t, fi, fo, uid = op
        sub = lambda xs: None if xs is None else [n if x == "SELF" else x for x in xs]
        kw = {}
        if fi is not None:
            kw["fanin"] = sub(fi)
        if fo is not None:
            kw["fanout"] = sub(fo)
        if uid:
            kw["uid"] = True
        return c.add(n, t, **kw)
    if k == "connect":
        return c.connect(op[1], op[2])
    if k == "disconnect":
        return c.disconnect(op[1], op[2])
    if k == "remove":
        return c.remove(op[1])
    if k == "set_output":
        return c.set_output(op[1], op[2])
    if k == "add_blackbox":
        if len(op) > 3 and op[3] == "leaf2":
            bb = cg.BlackBox("leaf2", ["m.i"], ["o"])  # a pin name that looks hierarchical
        elif len(op) > 3 and op[3] == "odd":
            bb = cg.BlackBox("odd", ["i", "o"], ["o"])
        else:
            bb = cg.BlackBox("leaf", ["i"], ["o"])
        return c.add_blackbox(bb, op[1], dict(op[2]) if op[2] is not None else None)
    if k == "add_subcircuit":
        return c.add_subcircuit(c if op[1] == "SELF" else kids[op[1]], op[2], dict(op[3]) if op[3] is not None else None)
    if k == "fill_blackbox":
        return c.fill_blackbox(op[1], c if op[2] == "SELF" else kids[op[2]])
    raise AssertionError(k)


JUDGED = ("add", "connect", "add_blackbox", "add_subcircuit", "fill_blackbox")


def invariant(c, hist):
    """Return a list of (mode, detail) for every violated clause."""
    g = c.graph
    bad = []
    for n in g.nodes:
        t = g.nodes[n].get("type")
        if t not in SUPPORTED:
            bad.append(("node-without-supported-type", f"{n}: {t!r}"))
            continue
        nin = len(g.pred[n])
        if t in ("input", "0", "1", "x", "bb_output") and nin:
            bad.append((f"fanin-on-{t}", f"{n} <- {sorted(g.pred[n])}"))
        if t in ("buf", "not", "bb_input") and nin > 1:
            bad.append((f"multiple-fanin-on-{t}", f"{n} <- {sorted(g.pred[n])}"))
        if t == "bb_input" and len(g.succ[n]):
            bad.append(("fanout-from-bb_input", f"{n} -> {sorted(g.succ[n])}"))
        if t == "bb_output":
            lo = list(g.succ[n])
            if len(lo) > 1:
                bad.append(("bb_output-drives-many", f"{n} -> {sorted(lo)}"))
            for l in lo:
                if g.nodes[l].get("type") != "buf":
                    bad.append(("bb_output-drives-non-buf", f"{n} -> {l} ({g.nodes[l].get('type')})"))
    for inst, bb in c.blackboxes.items():
        for p in bb.inputs():
            pn = f"{inst}.{p}"
            if pn in hist:
                continue
            if pn not in g or g.nodes[pn].get("type") != "bb_input":
                bad.append(("registered-blackbox-pin-missing-or-mistyped", pn))
        for p in bb.outputs():
            pn = f"{inst}.{p}"
            if pn in hist:
                continue
            if pn not in g or g.nodes[pn].get("type") != "bb_output":
                bad.append(("registered-blackbox-pin-missing-or-mistyped", pn))
    return bad


class Model:
    def __init__(self, acc, kids, ops):
        self.acc = acc
        self.kids = kids
        self.ops = ops

    def menu(self, c, hist):
        # the circuit itself as a child doubles the circuit: offered as the FIRST operation on every seed only
        # (the search then continues from the state it leaves)
        return [op for op in self.ops if "SELF" not in op[1:3]]

    def apply(self, c, op, hist):
        before_nodes = {n: dict(c.graph.nodes[n]) for n in c.graph.nodes}
        before_edges = set(c.graph.edges)
        before_bb = set(c.blackboxes)
        exc = None
        ret = None
        try:
            ret = do_op(c, op, self.kids)
        except Exception as e:  # noqa: BLE001
            exc = e
        nhist = hist
        if op[0] == "remove" and exc is None:
            ns = [op[1]] if isinstance(op[1], str) else list(op[1])
            gone = {n for n in ns if n in before_nodes and "." in n and n.split(".")[0] in before_bb}
            if gone:
                nhist = frozenset(set(hist) | gone)
        if op[0] == "fill_blackbox" and exc is None:
            nhist = frozenset(h for h in hist if h.split(".")[0] != op[1])
            if op[2] == "SELF":
                # the filling was the circuit itself: pins the caller had removed are missing in the spliced copy too
                nhist = frozenset(set(nhist) | {f"{op[1]}_{h}" for h in hist})
        if op[0] == "add_subcircuit" and exc is None and op[1] == "SELF":
            nhist = frozenset(set(hist) | {f"{op[2]}_{h}" for h in hist})
        self._last = (before_nodes, before_edges, ret)
        return exc, nhist

    def on_trans(self, before, hist, op, after, nhist, exc, trace):
        acc = self.acc
        acc.transitions += 1
        before_nodes, before_edges, ret = self._last
        case = {"kind": "trace", "trace": trace}
        kind = op[0] + (":uid" if op[0] == "add" and op[5] else "")
        if exc is not None:
            acc.outcome(f"{kind}:raises:{common.exc_name(exc)}")
            added = set(after.graph.edges) - before_edges
            if added and op[0] in JUDGED + ("disconnect", "remove", "set_output"):
                acc.violation("transition", f"rejected-{op[0]}-added-edges", case, f"{op} raised {exc!r} but added {sorted(added)}")
            if op[0] in JUDGED and not isinstance(exc, ValueError):
                pin_removed = any(h.split(".")[0] == op[1] for h in hist) if op[0] == "fill_blackbox" else False
                if not pin_removed:
                    acc.violation("transition", f"{op[0]}-raises-{common.exc_name(exc)}-not-ValueError", case, f"{op} raised {exc!r}")
        else:
            acc.outcome(f"{kind}:ok")
            if op[0] == "add" and op[5]:
                if ret in before_nodes:
                    acc.violation("transition", "uid-returned-existing-name", case, f"{op} returned {ret}")
                for n, d in before_nodes.items():
                    if n not in after.graph or dict(after.graph.nodes[n]) != d:
                        acc.violation("transition", "uid-add-changed-existing-node", case, f"{op}: node {n}")
                        break
                pre = set(before_nodes)
                among = {(u, v) for (u, v) in after.graph.edges if u in pre and v in pre}
                if among != before_edges:
                    acc.violation("transition", "uid-add-changed-existing-edges", case, f"{op}")
        acc.observe(op, common.exc_name(exc) if exc else None)

    def on_state(self, c, hist, trace):
        self.last_trace = trace
        for mode, detail in invariant(c, hist):
            self.acc.violation("state", mode, {"kind": "trace", "trace": trace}, detail)


def make_seed(label):
    desc = label
    return space.build(desc)


def run_core(job):
    acc = Acc(job)
    kids = children()
    ops = core_alphabet()
    model = Model(acc, kids, ops)
    desc = seed_circuits()[job["seed_idx"]]
    st = explore.bfs([([desc], space.build(desc), frozenset())], snapshot.clone, snapshot.key, model.menu, model.apply,
                     job["depth"], on_state=model.on_state, on_trans=model.on_trans, stop=acc.out_of_time)
    acc.states += st["states"]
    acc.nontrivial = st["states"] - 1
    acc.extra["core_alphabet_size"] = len(ops)
    acc.extra["core_states_by_depth"] = {f"seed{job['seed_idx']}": st["by_depth"]}
    acc.sample({"trace_of_last_state_explored": getattr(model, "last_trace", None), "depth": job["depth"]})
    return acc.result()


def run(job):
    common.setup_paths()
    if job["sub"] == "bfs-core":
        return run_core(job)
    acc = Acc(job)
    b = bounds(job["tier"])
    kids = children()
    ops = alphabet(b["names"])
    model = Model(acc, kids, ops)
    acc.extra["alphabet_size"] = len(ops)
    # level 1 from every seed, partitioned over the workers
    seeds = []
    idx = 0
    for desc in seed_circuits():
        for op in [None] + ops:
            if idx % job["of"] == job["chunk"]:
                c = space.build(desc)
                hist = frozenset()
                if op is not None:
                    before = snapshot.clone(c)
                    exc, hist = model.apply(c, op, hist)
                    model.on_trans(before, frozenset(), op, c, hist, exc, [("seed", [desc]), op])
                    seeds.append(([desc, op], c, hist))
                else:
                    seeds.append(([desc], c, hist))
            idx += 1
    # BFS needs labels that replay: ('seed', [desc, op?])
    st = explore.bfs([(lab, c, h) for lab, c, h in seeds], snapshot.clone, snapshot.key, model.menu, model.apply,
                     b["depth"] - 1, on_state=model.on_state, on_trans=model.on_trans, stop=acc.out_of_time)
    acc.states += st["states"]
    acc.extra["max_depth"] = 1 + st["max_depth"]
    acc.nontrivial += sum(1 for _ in range(0))  # placeholder, set below
    acc.nontrivial = st["states"] - st["by_depth"].get(0, 0)
    acc.sample({"trace_of_last_state_explored": getattr(model, "last_trace", None), "alphabet_sample": ops[:3]})
    if st.get("capped"):
        acc.capped = True
    return acc.result()


def replay(case, job):
    common.setup_paths()
    acc = Acc(job)
    kids = children()
    model = Model(acc, kids, [])
    trace = case["trace"]
    lab = trace[0][1]
    c = space.build(lab[0])
    hist = frozenset()
    steps = ([lab[1]] if len(lab) > 1 else []) + list(trace[1:])
    tr = [("seed", [lab[0]])]
    model.on_state(c, hist, tr)
    for op in steps:
        op = [tuple(x) if False else x for x in op]
        before = snapshot.clone(c)
        exc, nhist = model.apply(c, op, hist)
        tr = tr + [op]
        model.on_trans(before, hist, op, c, nhist, exc, tr)
        hist = nhist
        model.on_state(c, hist, tr)
    return acc.result()
