"""C15 - bench reader and writer are faithful.

Sub-spaces
  reader    : bench texts printed from a bench AST (so their denotation is known without parsing):
              INPUT/OUTPUT lines, the 9 gate spellings in upper and lower case, fan-in 1..4 incl. repeated
              operands, DFF lines (DFF fed by a DFF, by a gate, by an input); ALL line orders of every text
              with <= 5 lines, forward/reversed/rotated orders of longer ones; whitespace variants.
  roundtrip : circuit_to_bench -> bench_to_circuit for every blackbox-free circuit with >= 1 input,
              with constants feeding gates and as outputs, outputs that are inputs; several hash seeds.
Oracle: refsim on a graph built directly from the AST (each DFF output a free variable).
"""
import itertools

import networkx as nx

from mcv import common, refsim, space
from mcv.common import Acc

ID = "C15"
MECHANISM = ["io.bench_to_circuit", "io.circuit_to_bench"]
RULE = ("case = (bench AST, spelling variant, line order, whitespace variant) or (circuit, hash seed); distinct = distinct "
        "text / circuit; non-trivial = text with >= 1 gate whose line order or spelling differs from the canonical one, "
        "or circuit with >= 1 gate")
ASSUMPTIONS = ["no blank between a gate keyword and '(' (the dialect does not allow it)", "x constants are outside the dialect (the writer rejects them)"]

SPELL = {"buf": ["BUF", "BUFF", "buf", "buff"], "not": ["NOT", "not"], "and": ["AND", "and"], "nand": ["NAND", "nand"],
         "or": ["OR", "or"], "nor": ["NOR", "nor"], "xor": ["XOR", "xor"], "xnor": ["XNOR", "xnor"]}


def bounds(tier):
    q = tier == "quick"
    return {"reader_spaces": [[2, 2, 3]] if q else [[2, 2, 3], [3, 2, 3], [1, 3, 2]], "perm_lines": 5 if q else 6,
            "roundtrip": [[2, 2, 3], [3, 1, 3], [1, 2, 3]] if q else [[2, 2, 3], [3, 2, 3], [2, 3, 2]]}


def jobs(tier, seed):
    n = 12 if tier == "quick" else 64
    js = [{"sub": "reader", "chunk": i, "of": n} for i in range(n)]
    js += [{"sub": "reader-fixed"}]
    js += [{"sub": "history", "chunk": i, "of": 4} for i in range(4)]
    m = 6 if tier == "quick" else 32
    for hs in (0, 1, 2 + seed % 1000):
        js += [{"sub": "roundtrip", "chunk": i, "of": m, "hashseed": hs, "primary": hs == 0} for i in range(m)]
    return js


# --- bench AST ------------------------------------------------------------------------------------------------
# ast = {"inputs": [..], "outputs": [..], "gates": [[net, type, [operands]], ..], "dffs": [[q, d], ..]}


def ast_graph(ast):
    g = nx.DiGraph()
    for i in ast["inputs"]:
        g.add_node(i, type="input")
    for q, _d in ast["dffs"]:
        g.add_node(q, type="input")  # free
    for net, t, ops in ast["gates"]:
        g.add_node(net, type=t)
    return g


def ast_tables(ast):
    """net -> table over free = inputs + dff outputs (sorted).  Operand multiplicity matters for parity."""
    free = sorted(ast["inputs"]) + sorted(q for q, _ in ast["dffs"])
    assign, full = refsim.free_assign(free)
    val = dict(assign)
    pending = list(ast["gates"])
    for _ in range(len(pending) + 1):
        rest = []
        for net, t, ops in pending:
            if all(o in val for o in ops):
                val[net] = refsim.gate(t, [val[o] for o in ops], full)
            else:
                rest.append([net, t, ops])
        pending = rest
    if pending:
        raise refsim.RefError("bench AST is cyclic")
    return {n: v[0] for n, v in val.items()}, free, full


def lines_of(ast, spell_idx=0, ws=0):
    """One text line per statement."""
    eq = [" = ", "=", "  =\t", " ="][ws % 4]
    comma = [", ", ",", " , ", ",\t"][ws % 4]
    lp, rp = [("(", ")"), ("( ", " )"), ("(", " )"), ("(\t", ")")][ws % 4]
    lead = ["", "", "  ", "\t"][ws % 4]
    out = []
    for i in ast["inputs"]:
        out.append(f"{lead}INPUT{lp}{i}{rp}" if spell_idx % 2 == 0 else f"{lead}input{lp}{i}{rp}")
    for o in ast["outputs"]:
        out.append(f"{lead}OUTPUT{lp}{o}{rp}" if spell_idx % 2 == 0 else f"{lead}output{lp}{o}{rp}")
    for net, t, ops in ast["gates"]:
        sp = SPELL[t][spell_idx % len(SPELL[t])]
        out.append(f"{lead}{net}{eq}{sp}({' ' if ws % 4 == 1 else ''}{comma.join(ops)}{rp if ws % 4 else ')'}")
    for q, d in ast["dffs"]:
        out.append(f"{lead}{q}{eq}{'DFF' if spell_idx % 2 == 0 else 'dff'}({d})")
    return out


EDITS = ("add-input", "set-type", "unset-output", "remove", "relabel", "edit-after")


def edit_circuit(c, edit):
    """In-place edits a caller may make to a circuit obtained from the reader."""
    gates = sorted(n for n in c.graph.nodes if c.graph.nodes[n].get("type") not in ("input", "bb_input", "bb_output"))
    outs = sorted(c.outputs())
    if edit == "add-input":
        c.add("zz_extra", "input", fanout=[g for g in gates if c.graph.nodes[g].get("type") not in ("buf", "not", "0", "1")][:1])
    elif edit == "set-type" and gates:
        t = c.graph.nodes[gates[0]].get("type")
        c.set_type(gates[0], {"and": "or", "or": "and", "nand": "nor", "nor": "nand", "xor": "xnor", "xnor": "xor",
                              "buf": "not", "not": "buf"}.get(t, t))
    elif edit == "unset-output" and outs:
        c.set_output(outs[0], False)
    elif edit == "remove" and gates:
        c.remove(gates[-1])
    elif edit == "relabel" and outs:
        c.relabel({outs[0]: outs[0] + "_renamed"})


def commented(ast, lines):
    """The same statements with comments a reader has to skip: '#' starts a comment that runs to the end of the line
    (every .bench file shipped with the library opens with such lines).  The comments here LOOK like statements -
    a commented-out declaration, a commented-out second definition of a net with another operand, a remark behind a
    statement - so a reader that does not strip them produces another circuit."""
    ins = list(ast["inputs"])
    out = []
    for k, l in enumerate(lines):
        out.append(l + ("  # OUTPUT(%s)" % ins[0] if ins and k % 2 == 0 else " #INPUT(zz_c%d)" % k))
    extra = ["# INPUT(zz_in)", "#OUTPUT(zz_in)"]
    for net, t, ops in ast["gates"][:2]:
        extra.append(f"# {net} = NAND({', '.join([net + '_zz'] + list(ops))})")
        extra.append(f"#{net}_old = DFF({ops[0] if ops else net})")
    return extra[:2] + out[: len(out) // 2] + extra[2:] + out[len(out) // 2:]


def check_read(acc, ast, lines, case, site="reader"):
    import circuitgraph as cg

    if case.get("comments"):
        lines = commented(ast, lines)
    text = "# generated\n" + "\n".join(lines) + "\n"
    acc.transitions += 1
    edit = case.get("edit")
    try:
        if edit and edit != "edit-after":
            # read / edit the result in place / read the SAME text again: the second result is judged
            edit_circuit(cg.io.bench_to_circuit(text, "top"), edit)
        c = cg.io.bench_to_circuit(text, "top")
        if edit == "edit-after":
            # two reads of one text, then the FIRST result is edited: the second must not notice
            first = c
            c = cg.io.bench_to_circuit(text, "top")
            for e in EDITS[:5]:
                edit_circuit(first, e)
    except Exception as e:  # noqa: BLE001
        acc.violation(site, f"raises:{common.exc_name(e)}", dict(case, text=text), repr(e))
        return
    want, free, full = ast_tables(ast)
    if set(c.inputs()) != set(ast["inputs"]):
        acc.violation(site, "wrong-inputs", dict(case, text=text), f"{sorted(c.inputs())} vs {sorted(ast['inputs'])}")
        return
    if set(c.outputs()) != set(ast["outputs"]):
        acc.violation(site, "wrong-outputs", dict(case, text=text), f"{sorted(c.outputs())} vs {sorted(ast['outputs'])}")
        return
    # flops
    insts = {}
    for q, d in ast["dffs"]:
        hit = None
        for inst, bb in c.blackboxes.items():
            qpins = [p for p in bb.outputs() if q in c.graph.succ.get(f"{inst}.{p}", ())]
            if qpins:
                hit = (inst, bb, qpins[0])
        if hit is None:
            acc.violation(site, "dff-missing", dict(case, text=text), f"no blackbox output drives {q}")
            return
        inst, bb, qp = hit
        dp = [p for p in bb.inputs() if d in c.graph.pred.get(f"{inst}.{p}", ())]
        if not dp:
            acc.violation(site, "dff-d-not-connected", dict(case, text=text), f"{inst}: no input pin driven by {d}")
            return
        insts[q] = f"{inst}.{qp}"
    if len(c.blackboxes) != len(ast["dffs"]):
        acc.violation(site, "wrong-number-of-blackboxes", dict(case, text=text), sorted(c.blackboxes))
        return
    assign, _ = refsim.free_assign(free)
    a2 = {}
    for n, v in assign.items():
        a2[insts[n] if n in insts else n] = v
    try:
        val = refsim.evaluate(c.graph, a2, full)
    except (refsim.RefError, KeyError) as e:
        acc.violation(site, "result-unevaluable", dict(case, text=text), repr(e))
        return
    for net, w in want.items():
        if net not in val:
            acc.violation(site, "net-missing", dict(case, text=text, net=net), net)
            return
        if val[net][1] or val[net][0] != w:
            acc.violation(site, "net-function-wrong", dict(case, text=text, net=net), f"net {net} does not compute what the text denotes")
            return
    acc.outcome("read-ok")


def asts_from_space(tier):
    for I, G, ar in bounds(tier)["reader_spaces"]:
        for gates in space.circuits(I, G, max_arity=ar, min_gates=1):
            d = space.to_desc(I, gates, outputs="sinks")
            yield {"inputs": [n for n, t, _f, _o in d["nodes"] if t == "input"],
                   "outputs": [n for n, _t, _f, o in d["nodes"] if o],
                   "gates": [[n, t, fi] for n, t, fi, _o in d["nodes"] if t != "input"], "dffs": []}


def fixed_asts():
    # repeated operands and fan-in up to 4
    for t in SPELL:
        pools = [1] if t in ("buf", "not") else [1, 2, 3]
        for k in pools:
            for ops in itertools.product(["a", "b"], repeat=k):
                yield {"inputs": ["a", "b"], "outputs": ["y"], "gates": [["y", t, list(ops)]], "dffs": []}
        if t not in ("buf", "not"):
            yield {"inputs": ["a", "b", "c", "d"], "outputs": ["y"], "gates": [["y", t, ["a", "b", "c", "d"]]], "dffs": []}
            yield {"inputs": ["a", "b", "c"], "outputs": ["y"], "gates": [["y", t, ["a", "b", "a", "c"]]], "dffs": []}
    # flops
    for t in ("and", "xor", "nor"):
        yield {"inputs": ["a"], "outputs": ["g"], "gates": [["g", t, ["a", "q0"]]], "dffs": [["q0", "g"]]}
        yield {"inputs": ["a"], "outputs": ["q1"], "gates": [["g", t, ["a", "q1"]]], "dffs": [["q0", "g"], ["q1", "q0"]]}
        yield {"inputs": ["a", "b"], "outputs": ["g", "q0"], "gates": [["g", t, ["b", "q0"]]], "dffs": [["q0", "a"]]}
    yield {"inputs": ["a"], "outputs": ["q2"], "gates": [], "dffs": [["q0", "a"], ["q1", "q0"], ["q2", "q1"]]}
    yield {"inputs": ["a"], "outputs": ["y"], "gates": [["y", "not", ["q0"]]], "dffs": [["q0", "y"]]}


def orders(n, cap):
    if n <= cap:
        return list(itertools.permutations(range(n)))
    idx = list(range(n))
    return [tuple(idx), tuple(reversed(idx)), tuple(idx[1:] + idx[:1]), tuple(idx[-1:] + idx[:-1])]


def run_reader(job, acc):
    cap = bounds(job["tier"])["perm_lines"]
    for idx, ast in space.chunk(asts_from_space(job["tier"]), job["chunk"], job["of"]):
        for sp in (0, 1) + ((2, 3) if any(t == "buf" for _n, t, _o in ast["gates"]) else ()):
            base = lines_of(ast, sp, 0)
            for od in orders(len(base), cap):
                acc.states += 1
                if od != tuple(range(len(base))):
                    acc.nontrivial += 1
                check_read(acc, ast, [base[i] for i in od], {"kind": "read", "ast": ast, "spell": sp, "order": list(od), "ws": 0})
            if idx % 4 == 0:
                acc.states += 1
                acc.nontrivial += 1
                check_read(acc, ast, list(base), {"kind": "read", "ast": ast, "spell": sp, "order": list(range(len(base))), "ws": 0, "comments": True})
        acc.sample({"ast": ast})
        if acc.out_of_time():
            break
    acc.observe(acc.states)


def run_reader_fixed(job, acc):
    cap = bounds(job["tier"])["perm_lines"] + 1
    for ast in fixed_asts():
        for sp in range(4 if any(t == "buf" for _n, t, _o in ast["gates"]) else 2):
            for ws in range(4):
                base = lines_of(ast, sp, ws)
                for od in orders(len(base), cap):
                    acc.states += 1
                    acc.nontrivial += 1
                    check_read(acc, ast, [base[i] for i in od], {"kind": "read", "ast": ast, "spell": sp, "order": list(od), "ws": ws})
                acc.states += 1
                check_read(acc, ast, list(base), {"kind": "read", "ast": ast, "spell": sp, "order": list(range(len(base))), "ws": ws, "comments": True})
                # blank lines between statements
                acc.states += 1
                check_read(acc, ast, [x for l in base for x in (l, "")], {"kind": "read", "ast": ast, "spell": sp, "order": "blank", "ws": ws})
        acc.sample({"ast": ast})
    acc.observe(acc.states)


def run_history(job, acc):
    """read / edit / read histories on one text (every AST of the fixed family and of the small space, every edit)."""
    def asts():
        yield from fixed_asts()
        for gates in space.circuits(2, 2, max_arity=2, types=("and", "xor", "not", "nor"), min_gates=1):
            d = space.to_desc(2, gates, outputs="sinks")
            yield {"inputs": [n for n, t, _f, _o in d["nodes"] if t == "input"], "outputs": [n for n, _t, _f, o in d["nodes"] if o],
                   "gates": [[n, t, fi] for n, t, fi, _o in d["nodes"] if t != "input"], "dffs": []}

    for _idx, ast in space.chunk(asts(), job["chunk"], job["of"]):
        base = lines_of(ast, 0, 0)
        for edit in EDITS:
            acc.states += 1
            acc.nontrivial += 1
            check_read(acc, ast, base, {"kind": "read", "ast": ast, "spell": 0, "order": list(range(len(base))), "ws": 0,
                                        "edit": edit, "site": "history"}, site="history")
        acc.sample({"ast": ast})
    acc.observe(acc.states)


def check_roundtrip(acc, desc, order=None):
    """order: None | "rev" | "stale" (the writer was called once before the circuit's last in-place edit)."""
    import circuitgraph as cg

    case = {"kind": "roundtrip", "desc": desc, "order": order}
    acc.transitions += 1
    try:
        c, text = space.call_with_history(desc, cg.io.circuit_to_bench, order)
    except Exception as e:  # noqa: BLE001
        acc.violation("roundtrip", f"writer-raises:{common.exc_name(e)}", case, repr(e))
        return
    try:
        r = cg.io.bench_to_circuit(text, c.name)
    except Exception as e:  # noqa: BLE001
        acc.violation("roundtrip", f"reader-raises:{common.exc_name(e)}", dict(case, text=text), repr(e))
        return
    if set(r.inputs()) != set(c.inputs()) or set(r.outputs()) != set(c.outputs()):
        acc.violation("roundtrip", "io-differs", dict(case, text=text), f"{sorted(r.inputs())}/{sorted(r.outputs())}")
        return
    ins = sorted(c.inputs())
    t0, _f, _ = refsim.tables(c.graph, order=ins)
    try:
        t1, _f, _ = refsim.tables(r.graph, order=ins)
    except (refsim.RefError, KeyError) as e:
        acc.violation("roundtrip", "result-unevaluable", dict(case, text=text), repr(e))
        return
    for o in sorted(c.outputs()):
        if t0[o] != t1[o]:
            kind = "constant-" if c.graph.nodes[o]["type"] in ("0", "1") or any(c.graph.nodes[n]["type"] in ("0", "1") for n in c.graph.nodes) else ""
            acc.violation("roundtrip", f"{kind}output-function-differs", dict(case, text=text, node=o), f"output {o}")
            return
    acc.observe(text)
    acc.outcome("roundtrip-ok")


def run_roundtrip(job, acc):
    def descs():
        for I, G, ar in bounds(job["tier"])["roundtrip"]:
            for gates in space.circuits(I, G, max_arity=ar, min_gates=1):
                yield space.to_desc(I, gates, outputs="sinks")
        for gates in space.circuits(1, 2, max_arity=3, consts=("0", "1"), min_gates=1):
            yield space.to_desc(1, gates, consts=("0", "1"), outputs="sinks")
            yield space.to_desc(1, gates, consts=("0", "1"), outputs="all")
        for gates in space.circuits(2, 1, max_arity=2, min_gates=1):
            yield space.to_desc(2, gates, outputs="all")

    for _idx, desc in space.chunk(descs(), job["chunk"], job["of"]):
        acc.states += 1
        acc.nontrivial += 1
        check_roundtrip(acc, desc)
        if (_idx // job["of"]) % 4 == 0:
            acc.states += 1
            check_roundtrip(acc, desc, order="stale")
        if (_idx // job["of"]) % 8 == 2:
            # names as synthesis tools emit them: leading underscore, capitals, digits
            acc.states += 1
            und = {x[0]: nm for x, nm in zip(desc["nodes"], ("_00_", "_w", "N9", "__", "n_1_", "_1x", "q_", "_Z"))}
            check_roundtrip(acc, space.rename(desc, und))
        if (_idx // job["of"]) % 8 == 1:
            # very long net names (flattened hierarchical names): longer than any line width a writer may assume
            acc.states += 1
            long = {x[0]: f"u_top_u_core_u_alu_{x[0]}_" + "stage_" * 14 + x[0] for x in desc["nodes"]}
            check_roundtrip(acc, space.rename(desc, long))
        if any(x[1] in ("0", "1") for x in desc["nodes"]):
            acc.states += 1
            check_roundtrip(acc, desc, order="rev")   # constants / gates inserted before the inputs
        acc.sample({"desc": desc})


def run(job):
    common.setup_paths()
    acc = Acc(job)
    {"reader": run_reader, "reader-fixed": run_reader_fixed, "roundtrip": run_roundtrip, "history": run_history}[job["sub"]](job, acc)
    return acc.result()


def replay(case, job):
    common.setup_paths()
    acc = Acc(job)
    if case["kind"] == "read":
        ast = case["ast"]
        base = lines_of(ast, case["spell"], case["ws"])
        if case["order"] == "blank":
            lines = [x for l in base for x in (l, "")]
        else:
            lines = [base[i] for i in case["order"]]
        check_read(acc, ast, lines, {k: v for k, v in case.items() if k not in ("text", "net")}, site=case.get("site", "reader"))
    else:
        check_roundtrip(acc, case["desc"], order=case.get("order"))
    return acc.result()
