"""C12 - graph queries agree with their graph-theoretic definitions.

Sub-spaces
  dag     : all DAGs on <= N nodes, three typings each (plain; constants/not/xor;
            blackbox pins), every node and every non-empty node subset as argument.
  digraph : all loop-free digraphs on <= 4 nodes: is_cyclic, and the depth
            functions / levelize must reject exactly the cyclic ones.
Oracle: mcv.refgraph (no networkx).
"""
import itertools

from mcv import common, refgraph, space
from mcv.common import Acc

ID = "C12"
MECHANISM = ["circuit.fanin_depth", "circuit.fanout_depth", "props.levelize", "circuit.reconvergent_fanout_nodes",
             "circuit.kcuts", "circuit.startpoints", "circuit.endpoints", "circuit.transitive_fanin"]
RULE = ("case = (graph, typing); each is queried with every node, every non-empty node subset (size cap in bounds), "
        "kcuts k=1..4; distinct = distinct (graph, typing); non-trivial = graph has at least one edge")
ASSUMPTIONS = ["graphs are built through the public API (DAGs) or directly on Circuit.graph (cyclic digraphs)"]


def bounds(tier):
    return {"dag_nodes": 6 if tier == "quick" else 7, "subset_cap": 2 if tier == "quick" else 4,
            "digraph_nodes": 4, "kcuts_k": [1, 2, 3, 4]}


def jobs(tier, seed):
    b = bounds(tier)
    n = 48 if tier == "quick" else 256
    js = [{"sub": "dag", "chunk": i, "of": n, "n": b["dag_nodes"], "cap": b["subset_cap"]} for i in range(n)]
    js += [{"sub": "digraph", "chunk": i, "of": 4, "n": 4} for i in range(4)]
    js.append({"sub": "dag", "chunk": 1, "of": n, "n": b["dag_nodes"], "cap": b["subset_cap"],
               "hashseed": 1 + seed % 1000, "primary": False})
    js += [{"sub": "history", "chunk": i, "of": 8, "depth": 1 if tier == "quick" else 2} for i in range(8)]
    js += [{"sub": "deep", "depths": [d]} for d in ((3, 60, 1100, 2600) if tier == "quick" else (3, 60, 400, 1100, 2600, 6000))]
    return js


def typings(n, edges):
    indeg, outdeg, succ, pred = space.degrees(n, edges)
    t1, t2, t3 = [], [], []
    for i in range(n):
        if indeg[i] == 0:
            t1.append("input")
            t2.append("1" if i % 2 == 0 else "input")
            if outdeg[i] <= 1 and (outdeg[i] == 0 or indeg[succ[i][0]] == 1):
                t3.append("bbout")
            else:
                t3.append("input")
        elif indeg[i] == 1:
            t1.append("buf")
            t2.append("not")
            t3.append("buf")
        else:
            t1.append("and")
            t2.append("xor")
            t3.append("or")
    for i in range(n):
        if outdeg[i] == 0 and indeg[i] == 1 and t3[pred[i][0]] != "bbout":
            t3[i] = "bbin"
    sinks = {i for i in range(n) if outdeg[i] == 0}
    out = [("plain", t1, set(sinks)), ("const", t2, sinks | {i for i in range(n) if i % 2 == 1})]
    if any(k in ("bbin", "bbout") for k in t3):
        out.append(("bb", t3, {i for i in sinks if t3[i] not in ("bbin", "bbout")}))
    return out


def cmp(acc, site, what, got, want, case, arg=None):
    acc.transitions += 1
    if got != want:
        c = dict(case)
        c["query"] = what
        c["arg"] = arg
        acc.violation(site, f"{what}-mismatch", c, f"{what}({arg}) = {_s(got)} expected {_s(want)}")
        return False
    return True


def _s(x):
    if isinstance(x, (set, frozenset)):
        return sorted(x, key=str)
    return x


def call(acc, site, what, fn, case, arg=None):
    try:
        r = fn()
        if getattr(acc, "scramble_results", False) and isinstance(r, (set, list, dict)):
            # first round of a history: the caller empties / edits the container it was handed
            keep = type(r)(r)
            space.scramble(r)
            return True, keep
        return True, r
    except Exception as e:  # noqa: BLE001
        acc.transitions += 1
        c = dict(case)
        c["query"] = what
        c["arg"] = arg
        acc.violation(site, f"{what}-raises:{common.exc_name(e)}", c, repr(e))
        return False, None


def check_dag(acc, c, case, cap, site="dag"):
    import circuitgraph as cg

    g = c.graph
    succ = refgraph.from_nx(g)
    pred = refgraph.invert(succ)
    cl = refgraph.closure(succ)
    clp = refgraph.closure(pred)
    types = {n: g.nodes[n].get("type") for n in g.nodes}
    outs = {n for n in g.nodes if g.nodes[n].get("output")}
    sp_all = {n for n in succ if types[n] in ("input", "bb_output")}
    ep_all = outs | {n for n in succ if types[n] == "bb_input"}
    nodes = sorted(succ)
    # whole-circuit queries
    ok, r = call(acc, site, "startpoints", lambda: c.startpoints(), case)
    if ok:
        cmp(acc, site, "startpoints", set(r), sp_all, case)
    ok, r = call(acc, site, "endpoints", lambda: c.endpoints(), case)
    if ok:
        cmp(acc, site, "endpoints", set(r), ep_all, case)
    ok, r = call(acc, site, "is_cyclic", lambda: c.is_cyclic(), case)
    if ok:
        cmp(acc, site, "is_cyclic", bool(r), False, case)
    ok, r = call(acc, site, "topo_sort", lambda: list(c.topo_sort()), case)
    if ok:
        cmp(acc, site, "topo_sort", refgraph.is_topo_order(succ, r), True, case, arg=r)
    ok, r = call(acc, site, "levelize", lambda: cg.props.levelize(c), case)
    if ok:
        cmp(acc, site, "levelize", dict(r), refgraph.levels(succ), case)
    ok, r = call(acc, site, "reconvergent_fanout_nodes", lambda: list(c.reconvergent_fanout_nodes()), case)
    want_rc = refgraph.reconvergent(succ)
    if ok:
        if len(r) != len(set(r)):
            acc.violation(site, "reconvergent-duplicates", case, r)
        cmp(acc, site, "reconvergent_fanout_nodes", set(r), want_rc, case)
    ok, r = call(acc, site, "has_reconvergent_fanout", lambda: c.has_reconvergent_fanout(), case)
    if ok:
        cmp(acc, site, "has_reconvergent_fanout", bool(r), bool(want_rc), case)
    acc.observe(sorted(want_rc))
    # per node / per subset
    memo_f = {}
    memo_b = {}
    for r_ in range(1, min(cap, len(nodes)) + 1):
        for ns in itertools.combinations(nodes, r_):
            args = [list(ns)] if r_ > 1 else [ns[0], [ns[0]]]
            for arg in args:
                S = set(ns)
                tfi = set().union(*(clp[n] for n in ns))
                tfo = set().union(*(cl[n] for n in ns))
                for what, fn, want in (
                    ("fanin", lambda: c.fanin(arg), set().union(*(pred[n] for n in ns))),
                    ("fanout", lambda: c.fanout(arg), set().union(*(succ[n] for n in ns))),
                    ("transitive_fanin", lambda: c.transitive_fanin(arg), tfi),
                    ("transitive_fanout", lambda: c.transitive_fanout(arg), tfo),
                    ("startpoints", lambda: c.startpoints(arg), (S | tfi) & sp_all),
                    ("endpoints", lambda: c.endpoints(arg), (S | tfo) & ep_all),
                    ("fanout_depth", lambda: c.fanout_depth(arg), max(refgraph.longest_from(succ, n, memo_f) for n in ns)),
                    ("fanin_depth", lambda: c.fanin_depth(arg), max(refgraph.longest_from(pred, n, memo_b) for n in ns)),
                ):
                    ok, got = call(acc, site, what, fn, case, arg)
                    if ok:
                        if isinstance(want, set):
                            got = set(got)
                        cmp(acc, site, what, got, want, case, arg)
    # kcuts
    for n in nodes:
        for k in (1, 2, 3, 4):
            ok, cuts = call(acc, site, "kcuts", lambda: c.kcuts(n, k), case, [n, k])
            if not ok:
                continue
            acc.transitions += 1
            cuts = [set(x) for x in cuts]
            bad = None
            for cut in cuts:
                if cut == {n}:
                    continue
                if not cut <= set(nodes):
                    bad = f"cut {sorted(cut)} has foreign nodes"
                elif len(cut) > k:
                    bad = f"cut {sorted(cut)} larger than k={k}"
                elif not refgraph.separates(succ, cut, n):
                    bad = f"cut {sorted(cut)} does not separate {n} from the sources"
            if bad:
                cc = dict(case)
                cc["query"] = "kcuts"
                cc["arg"] = [n, k]
                acc.violation(site, "kcuts-bad-cut", cc, bad)


def run_dag(job, acc):
    it = ((n, e) for n in range(1, job["n"] + 1) for e in space.dags(n))
    for _idx, (n, edges) in space.chunk(it, job["chunk"], job["of"]):
        for tname, kinds, outs in typings(n, edges):
            if n >= 7 and tname != "plain" and (_idx // job["of"]) % 4:
                continue  # 7-node DAGs: plain typing for all, the other typings for every 4th graph
            desc, _nm = space.typed_dag_desc(n, edges, kinds, outs)
            case = {"kind": "dag", "desc": desc, "typing": tname}
            c = space.build(desc)
            acc.states += 1
            if edges:
                acc.nontrivial += 1
            cap = 1 if n >= 7 else job["cap"] if n == 6 else n
            check_dag(acc, c, case, cap)
            acc.sample(case)
        if acc.out_of_time():
            break


def build_digraph(n, edges):
    import circuitgraph as cg

    indeg, _o, _s, _p = space.degrees(n, edges)
    c = cg.Circuit(name="top")
    for i in range(n):
        t = "input" if indeg[i] == 0 else "buf" if indeg[i] == 1 else "and"
        c.graph.add_node(f"n{i}", type=t, output=False)
    for u, v in edges:
        c.graph.add_edge(f"n{u}", f"n{v}")
    return c


def check_digraph(acc, c, case, site="digraph"):
    import circuitgraph as cg

    succ = refgraph.from_nx(c.graph)
    cyc = refgraph.is_cyclic(succ)
    ok, r = call(acc, site, "is_cyclic", lambda: c.is_cyclic(), case)
    if ok:
        cmp(acc, site, "is_cyclic", bool(r), cyc, case)
    acc.outcome("cyclic" if cyc else "acyclic")
    acc.observe(cyc)
    nodes = sorted(succ)
    for what, fn in (
        ("fanin_depth", lambda: c.fanin_depth(nodes[-1])),
        ("fanout_depth", lambda: c.fanout_depth(nodes[0])),
        ("fanin_depth-list", lambda: c.fanin_depth(nodes)),
        ("fanout_depth-list", lambda: c.fanout_depth(nodes)),
        ("levelize", lambda: cg.props.levelize(c)),
    ):
        acc.transitions += 1
        try:
            fn()
            raised = None
        except ValueError:
            raised = "ValueError"
        except Exception as e:  # noqa: BLE001
            raised = common.exc_name(e)
        cc = dict(case)
        cc["query"] = what
        if cyc and raised != "ValueError":
            acc.violation(site, f"{what}-accepts-cyclic", cc, f"raised={raised}")
        if not cyc and raised:
            acc.violation(site, f"{what}-rejects-acyclic:{raised}", cc, "")


def run_digraph(job, acc):
    it = ((n, e) for n in range(2, job["n"] + 1) for e in space.digraphs(n))
    for _idx, (n, edges) in space.chunk(it, job["chunk"], job["of"]):
        case = {"kind": "digraph", "n": n, "edges": edges}
        c = build_digraph(n, edges)
        acc.states += 1
        if edges:
            acc.nontrivial += 1
        check_digraph(acc, c, case)
        acc.sample(case)


# --- histories: query, edit the SAME object, query again (stale caches, missed invalidation) ----------------


def children():
    import circuitgraph as cg

    loop = cg.Circuit("loop")
    loop.add("x", "input")
    loop.add("p", "and", fanin=["x"])
    loop.add("q", "or", fanin=["p", "x"], output=True)
    loop.connect("q", "p")
    line = cg.Circuit("line")
    line.add("x", "input")
    line.add("p", "not", fanin=["x"])
    line.add("q", "buf", fanin=["p"], output=True)
    return {"loop": loop, "line": line}


def mutators(c):
    nodes = sorted(c.graph.nodes)
    ops = []
    for u in nodes[:4]:
        for v in nodes[:4]:
            if u != v:
                ops.append(["connect", u, v])      # only edits the API accepts are followed (legal circuits)
                ops.append(["disconnect", u, v])
    # move one edge: node and edge counts stay what they were, reachability / depth / cycles change
    for (u, v) in sorted(c.graph.edges)[:3]:
        for w in nodes[:4]:
            if w not in (u, v) and not c.graph.has_edge(w, v):
                ops.append(["move", u, v, w])
    for n in nodes[:2] + nodes[-1:]:
        ops.append(["remove", n])
    ops.append(["relabel", nodes[0], "zz"])
    ops.append(["set_output", nodes[0]])
    for n in nodes:
        if c.graph.nodes[n].get("type") in ("and", "or"):
            ops.append(["set_type", n, "xor"])
            break
    for ch in ("loop", "line"):
        ops.append(["add_subcircuit", ch, None])
        ops.append(["add_subcircuit", ch, {"x": nodes[0]}])
        ops.append(["add_subcircuit", ch, {"x": nodes[0], "q": nodes[-1]}])
    if "k" in c.blackboxes:
        ops.append(["fill_blackbox", "k", "loop"])
        ops.append(["fill_blackbox", "k", "line"])
    return ops


def mutate(c, op, kids):
    k = op[0]
    if k == "graph.add_edge":
        c.graph.add_edge(op[1], op[2])
    elif k == "move":
        c.disconnect(op[1], op[2])
        c.connect(op[3], op[2])
    elif k == "disconnect":
        c.disconnect(op[1], op[2])
    elif k == "connect":
        c.connect(op[1], op[2])
    elif k == "remove":
        c.remove(op[1])
    elif k == "relabel":
        c.relabel({op[1]: op[2]})
    elif k == "set_output":
        c.set_output(op[1], not c.is_output(op[1]))
    elif k == "set_type":
        c.set_type(op[1], op[2])
    elif k == "add_subcircuit":
        c.add_subcircuit(kids[op[1]], "u", dict(op[2]) if op[2] else None)
    elif k == "fill_blackbox":
        c.fill_blackbox(op[1], kids[op[2]])


def wellformed(c):
    """Every gate driven, single-input types with one driver, no fan-in on sources (independent of utils.lint)."""
    g = c.graph
    for n in g.nodes:
        t = g.nodes[n].get("type")
        k = len(g.pred[n])
        if t in ("input", "0", "1", "x", "bb_output"):
            if k:
                return False
        elif t in ("buf", "not", "bb_input"):
            if k != 1 and not (t == "bb_input" and k == 0):
                return False
        elif t in ("and", "nand", "or", "nor", "xor", "xnor"):
            if k < 1:
                return False
        else:
            return False
    return True


def check_any(acc, c, case, site="history"):
    """All queries on whatever the circuit is now."""
    succ = refgraph.from_nx(c.graph)
    if refgraph.is_cyclic(succ):
        check_digraph(acc, c, case, site=site)
        # closure queries are defined on cyclic graphs too
        cl = refgraph.closure(succ)
        clp = refgraph.closure(refgraph.invert(succ))
        for n in sorted(succ):
            for what, fn, want in (("transitive_fanout", lambda: c.transitive_fanout(n), cl[n] - {n}),
                                   ("transitive_fanin", lambda: c.transitive_fanin(n), clp[n] - {n})):
                ok, got = call(acc, site, what, fn, case, n)
                if ok:
                    cmp(acc, site, what, set(got), want, case, n)
    else:
        ok_types = all(c.graph.nodes[n].get("type") for n in c.graph.nodes)
        if ok_types:
            check_dag(acc, c, case, 2, site=site)


def seeds_hist():
    for edges in space.dags(4):
        for tname, kinds, outs in typings(4, edges):
            if tname == "const":
                continue
            desc, _nm = space.typed_dag_desc(4, edges, kinds, outs)
            yield desc
    yield {"name": "top", "nodes": [["a", "input", [], False], ["b", "buf", [], True], ["g", "and", ["a", "b"], True]],
           "bbs": [["k", "leaf", ["x"], ["q"], {"x": "a", "q": "b"}]]}


def run_history(job, acc):
    kids = children()
    for _idx, desc in space.chunk(seeds_hist(), job["chunk"], job["of"]):
        c0 = space.build(desc)
        ops = mutators(c0)
        seqs = [[o] for o in ops]
        if job["depth"] >= 2:
            seqs += [[a, b] for a in ops[::3] for b in ops[::2]]
        for seq in seqs:
            c = space.build(desc)
            case = {"kind": "history", "desc": desc, "ops": seq}
            quiet = Acc(job)
            quiet.scramble_results = True
            check_any(quiet, c, case)          # first round of queries (may fill caches)
            ok = True
            for op in seq:
                try:
                    mutate(c, op, kids)
                except Exception:  # noqa: BLE001
                    ok = False                  # an edit the API rejects: nothing to re-query
                    break
                if any("type" not in c.graph.nodes[n] for n in c.graph.nodes):
                    ok = False                  # graph.add_edge created an untyped node
                    break
            if not ok or not wellformed(c):
                continue
            acc.states += 1
            acc.nontrivial += 1
            check_any(acc, c, case)             # second round: judged against the current graph
        acc.sample({"desc": desc, "ops": seqs[0]})
        if acc.out_of_time():
            break


def deep_circuit(shape, D):
    """chain : a -> n1 -> ... -> nD (inverters).   ladder : p_i = not(p_{i-1}), q_i = and(q_{i-1}, p_{i-1}); p_0 = a, q_0 = b."""
    import circuitgraph as cg

    c = cg.Circuit("deep")
    c.add("a", "input")
    if shape == "chain":
        prev = "a"
        for i in range(1, D + 1):
            prev = c.add(f"n{i}", "not", fanin=prev)
        c.set_output(prev)
        return c
    c.add("b", "input")
    p, q = "a", "b"
    for i in range(1, D + 1):
        p2 = c.add(f"p{i}", "not", fanin=p)
        q = c.add(f"q{i}", "and", fanin=[q, p])
        p = p2
    c.set_output([p, q])
    return c


def check_deep(acc, shape, D):
    """Queries on circuits much deeper than they are wide (depth D up to several thousand): the expected answers
    are known in closed form, so no recursive reference is involved."""
    import circuitgraph as cg

    case = {"kind": "deep", "shape": shape, "depth": D}
    site = "deep"
    c = deep_circuit(shape, D)
    top, mid = (f"n{D}", f"n{D // 2}") if shape == "chain" else (f"q{D}", f"q{D // 2}")
    qs = [("is_cyclic", lambda: c.is_cyclic(), False, None),
          ("fanin_depth", lambda: c.fanin_depth(top), D, top),
          ("fanin_depth", lambda: c.fanin_depth(mid), D // 2, mid),
          ("fanout_depth", lambda: c.fanout_depth("a"), D, "a"),
          ("fanin_depth-list", lambda: c.fanin_depth([top, mid]), D, [top, mid]),
          ("transitive_fanin", lambda: len(c.transitive_fanin(top)), D if shape == "chain" else 2 * D, top),
          ("transitive_fanout", lambda: len(c.transitive_fanout("a")), D if shape == "chain" else 2 * D, "a"),
          ("startpoints", lambda: set(c.startpoints(top)), {"a"} if shape == "chain" else {"a", "b"}, top)]
    for what, fn, want, arg in qs:
        ok, got = call(acc, site, what, fn, case, arg)
        if ok:
            cmp(acc, site, what, got, want, case, arg)
    ok, lv = call(acc, site, "levelize", lambda: cg.props.levelize(c), case)
    if ok:
        if shape == "chain":
            want = {"a": 0, **{f"n{i}": i for i in range(1, D + 1)}}
        else:
            want = {"a": 0, "b": 0, **{f"p{i}": i for i in range(1, D + 1)}, **{f"q{i}": i for i in range(1, D + 1)}}
        cmp(acc, site, "levelize", dict(lv), want, case)
    ok, order = call(acc, site, "topo_sort", lambda: list(c.topo_sort()), case)
    if ok:
        pos = {n: i for i, n in enumerate(order)}
        good = len(pos) == len(c.graph) and all(pos[u] < pos[v] for u, v in c.graph.edges)
        cmp(acc, site, "topo_sort", good, True, case)
    ok, rc = call(acc, site, "reconvergent_fanout_nodes", lambda: set(c.reconvergent_fanout_nodes()), case)
    if ok:
        # ladder: p_{i} feeds p_{i+1} and q_{i+1}, which meet again in q_{i+2}
        want = set() if shape == "chain" else ({"a"} | {f"p{i}" for i in range(1, D - 1)} if D >= 2 else set())
        cmp(acc, site, "reconvergent_fanout_nodes", rc, want, case)
    if shape == "chain":
        ok, cuts = call(acc, site, "kcuts", lambda: [frozenset(x) for x in c.kcuts(top, 1)], case, top)
        if ok:
            want = {frozenset(["a"])} | {frozenset([f"n{i}"]) for i in range(1, D + 1)}
            cmp(acc, site, "kcuts", set(cuts), want, case, top)
    acc.outcome("deep-ok")


def run_deep(job, acc):
    for shape in ("chain", "ladder"):
        for D in job["depths"]:
            acc.states += 1
            acc.nontrivial += 1
            check_deep(acc, shape, D)
    acc.sample({"shapes": ["chain", "ladder"], "depths": job["depths"]})
    acc.observe(job["depths"])


def run(job):
    common.setup_paths()
    acc = Acc(job)
    if job["sub"] == "deep":
        run_deep(job, acc)
        return acc.result()
    if job["sub"] == "history":
        run_history(job, acc)
        return acc.result()
    if job["sub"] == "dag":
        run_dag(job, acc)
    else:
        run_digraph(job, acc)
    return acc.result()


def replay(case, job):
    common.setup_paths()
    acc = Acc(job)
    if case["kind"] == "history":
        kids = children()
        c = space.build(case["desc"])
        base = {k: v for k, v in case.items() if k not in ("query", "arg")}
        check_any(Acc(job), c, base)
        for op in case["ops"]:
            mutate(c, op, kids)
        check_any(acc, c, base)
    elif case["kind"] == "deep":
        check_deep(acc, case["shape"], case["depth"])
    elif case["kind"] == "dag":
        c = space.build(case["desc"])
        check_dag(acc, c, case, 6)
    else:
        c = build_digraph(case["n"], [tuple(e) for e in case["edges"]])
        check_digraph(acc, c, case)
    return acc.result()
