"""C03 - Verilog write -> read round trip preserves the circuit.

Space: enumerated circuits with constants (0, 1, and x under Kleene comparison), every output-marking subset
(outputs that are inputs or constants included), 0-2 blackbox instances of two types with each pin connected
or unconnected, plain and escaped identifiers, behavioral in {False, True}, several PYTHONHASHSEEDs (they fix
the order of ports, wires and operands in the text), and the file-level to_file / from_file path.
Oracle: same name, inputs, outputs, blackbox instances (type, net on every pin, unconnected stays unconnected),
same refsim function at every output and blackbox input pin; without constants and in gate-primitive form the
graphs must be identical.
"""
import itertools
import re
import os
import tempfile

from mcv import common, refsim, space
from mcv.common import Acc

ID = "C03"
MECHANISM = ["io.circuit_to_verilog", "io.verilog_to_circuit", "parsing.verilog.parse_verilog_netlist", "io.to_file", "io.from_file"]
RULE = ("case = (circuit with output marking / blackboxes / names, behavioral flag, hash seed); distinct = distinct (desc, flag); "
        "non-trivial = circuit with at least one gate or blackbox")
ASSUMPTIONS = ["node names are legal Verilog identifiers (plain or escaped) and avoid tie_0/tie_1/tie_x and the reader's synthetic expression names",
               "at least one port"]
BBS = {"ff": (["clk", "d"], ["q"]), "two": (["i"], ["o1", "o2"])}


def bounds(tier):
    q = tier == "quick"
    return {"all_subsets": [[2, 1, 3], [1, 2, 3]] if q else [[2, 1, 3], [1, 2, 3], [2, 2, 2]],
            "sinks": [[2, 2, 3]] if q else [[2, 2, 3], [3, 2, 4], [2, 3, 2]]}


def jobs(tier, seed):
    n = 32 if tier == "quick" else 160
    js = [{"sub": "circuits", "chunk": i, "of": n} for i in range(n)]
    js += [{"sub": "bb", "chunk": i, "of": 8} for i in range(8)]
    js += [{"sub": "file"}]
    for hs in (1, 2 + seed % 1000):
        js += [{"sub": "circuits", "chunk": i, "of": n, "hashseed": hs, "primary": False} for i in range(0, n, 8)]
        js += [{"sub": "bb", "chunk": 0, "of": 8, "hashseed": hs, "primary": False}]
    return js


def subsets(xs):
    for r in range(len(xs) + 1):
        yield from itertools.combinations(xs, r)


ESC = {"a": "\\a[0]", "g0": "\\n$1", "g1": "\\g.1"}


def corpus(tier):
    b = bounds(tier)
    k = 0
    for I, G, ar in b["all_subsets"]:
        for gates in space.circuits(I, G, max_arity=ar, min_gates=1):
            n = I + len(gates)
            for outs in subsets(range(n)):
                if not outs:
                    continue
                yield space.to_desc(I, gates, outputs=outs)
    for I, G, ar in b["sinks"]:
        for gates in space.circuits(I, G, max_arity=ar, min_gates=G):
            d = space.to_desc(I, gates, outputs="sinks")
            yield d
            k += 1
            if k % 8 == 0:
                yield space.rename(d, {kk: v for kk, v in ESC.items() if "." not in v})
            if k % 16 == 0:
                yield space.to_desc(I, gates, outputs="all")
            if k % 24 == 12:
                # very long names (flattened hierarchies)
                yield space.rename(d, {x[0]: f"u_top_u_core_{x[0]}_" + "stage_" * 14 + x[0] for x in d["nodes"]})
            if k % 24 == 0:
                # escaped identifiers may contain any printable non-blank character
                yield space.rename(d, {"a": "\\a,b", "g0": "\\d(0)", "g1": "\\x;y"})
    # constants 0 / 1 feeding gates and as outputs; x constants
    for gates in space.circuits(1, 2 if tier != "quick" else 1, max_arity=3, consts=("0", "1"), min_gates=1):
        yield space.to_desc(1, gates, consts=("0", "1"), outputs="sinks")
        yield space.to_desc(1, gates, consts=("0", "1"), outputs="all")
    for gates in space.circuits(1, 2, types=("and", "xor", "not", "nor"), max_arity=2, consts=("0", "1"), min_gates=2):
        yield space.to_desc(1, gates, consts=("0", "1"), outputs="sinks")
    for gates in space.circuits(0, 2, types=("and", "xor", "not", "nor"), max_arity=2, consts=("0", "1"), min_gates=1):
        yield space.to_desc(0, gates, consts=("0", "1"), outputs="sinks")   # no primary input at all
    for gates in space.circuits(1, 1, max_arity=2, consts=("x",), min_gates=1):
        yield space.to_desc(1, gates, consts=("x",), outputs="sinks")
        yield space.to_desc(1, gates, consts=("x",), outputs="all")


def bb_corpus():
    """Circuits with 1-2 blackbox instances, every pin connected or not."""
    for clk, d, q in itertools.product(("a", None), ("b", "w", None), ("y", None)):
        nodes = [["a", "input", [], False], ["b", "input", [], False], ["w", "and", ["a", "b"], False], ["z", "xor", ["a", "w"], True]]
        if q == "y":
            nodes.append(["y", "buf", [], True])
            nodes.append(["v", "nor", ["y", "b"], True])
        else:
            nodes.append(["y", "not", ["a"], True])
        conn = {p: v for p, v in (("clk", clk), ("d", d), ("q", q)) if v}
        yield {"name": "seq", "nodes": nodes, "bbs": [["f0", "ff", BBS["ff"][0], BBS["ff"][1], conn]]}
    for o1, o2 in itertools.product(("y", None), ("z", None)):
        nodes = [["a", "input", [], False], ["b", "input", [], False]]
        nodes.append(["y", "buf", [], True] if o1 else ["y", "not", ["b"], True])
        nodes.append(["z", "buf", [], True] if o2 else ["z", "and", ["a", "b"], True])
        nodes.append(["q", "buf", [], False])
        nodes.append(["u", "xnor", ["q", "y", "z"], True])
        conn2 = {p: v for p, v in (("i", "a"), ("o1", o1), ("o2", o2)) if v}
        yield {"name": "twobb", "nodes": nodes,
               "bbs": [["t0", "two", BBS["two"][0], BBS["two"][1], conn2], ["f1", "ff", BBS["ff"][0], BBS["ff"][1], {"clk": "b", "d": "z", "q": "q"}]]}
    # no primary input: a flop ring clocked by a constant
    yield {"name": "ring", "nodes": [["k", "1", [], False], ["q", "buf", [], True], ["d", "not", ["q"], False]],
           "bbs": [["f0", "ff", BBS["ff"][0], BBS["ff"][1], {"clk": "k", "d": "d", "q": "q"}]]}
    # an escaped INSTANCE name
    yield {"name": "escinst", "nodes": [["a", "input", [], False], ["b", "input", [], False], ["y", "buf", [], True]],
           "bbs": [["\\i1", "ff", BBS["ff"][0], BBS["ff"][1], {"clk": "a", "d": "b", "q": "y"}]]}
    # escaped names around a blackbox, a pin tied to a constant node
    yield {"name": "escbb", "nodes": [["\\a[0]", "input", [], False], ["k", "1", [], False], ["\\q$", "buf", [], True]],
           "bbs": [["f0", "ff", BBS["ff"][0], BBS["ff"][1], {"clk": "k", "d": "\\a[0]", "q": "\\q$"}]]}


def bb_objects():
    import circuitgraph as cg

    return [cg.BlackBox(k, list(i), list(o)) for k, (i, o) in BBS.items()]


def functions(c, free):
    assign = {}
    k = len(free)
    full = refsim.full_mask(k)
    for i, n in enumerate(free):
        assign[n] = (refsim.var_mask(i, k), 0)
    for n in c.graph.nodes:
        if c.graph.nodes[n].get("type") == "bb_input" and not c.graph.pred[n]:
            assign[n] = (0, 0)
        if c.graph.nodes[n].get("type") == "buf" and not c.graph.pred[n] and n not in assign:
            assign[n] = (0, 0)  # buffer of an unconnected blackbox output
    return refsim.evaluate(c.graph, assign, full)


def compare(acc, c, r, case, site, identical):
    if r.name != c.name:
        acc.violation(site, "name-differs", case, f"{r.name!r} vs {c.name!r}")
        return
    if set(r.inputs()) != set(c.inputs()):
        acc.violation(site, "inputs-differ", case, f"{sorted(r.inputs())} vs {sorted(c.inputs())}")
        return
    if set(r.outputs()) != set(c.outputs()):
        acc.violation(site, "outputs-differ", case, f"{sorted(r.outputs())} vs {sorted(c.outputs())}")
        return
    a = {k: b.name for k, b in c.blackboxes.items()}
    b2 = {k: b.name for k, b in r.blackboxes.items()}
    if a != b2:
        acc.violation(site, "blackbox-instances-differ", case, f"{b2} vs {a}")
        return
    for inst, bb in c.blackboxes.items():
        for p in bb.inputs():
            if set(r.graph.pred.get(f"{inst}.{p}", ())) != set(c.graph.pred[f"{inst}.{p}"]) and not any(
                    c.graph.nodes[x]["type"] in ("0", "1", "x") for x in c.graph.pred[f"{inst}.{p}"]):
                acc.violation(site, "pin-net-differs", case, f"{inst}.{p}: {sorted(r.graph.pred.get(f'{inst}.{p}', ()))} vs {sorted(c.graph.pred[f'{inst}.{p}'])}")
                return
        for p in bb.outputs():
            if set(r.graph.succ.get(f"{inst}.{p}", ())) != set(c.graph.succ[f"{inst}.{p}"]):
                acc.violation(site, "pin-net-differs", case, f"{inst}.{p}: {sorted(r.graph.succ.get(f'{inst}.{p}', ()))} vs {sorted(c.graph.succ[f'{inst}.{p}'])}")
                return
    free = sorted(n for n in c.graph.nodes if c.graph.nodes[n]["type"] in ("input", "bb_output"))
    try:
        v0 = functions(c, free)
        v1 = functions(r, free)
    except (refsim.RefError, KeyError) as e:
        acc.violation(site, "result-unevaluable", case, repr(e))
        return
    watch = sorted(c.outputs()) + sorted(n for n in c.graph.nodes if c.graph.nodes[n]["type"] == "bb_input")
    for n in watch:
        if n not in v1 or v0[n] != v1[n]:
            acc.violation(site, "function-differs", dict(case, node=n), f"node {n}")
            return
    if identical:
        g0, g1 = c.graph, r.graph
        n0 = sorted((n, g0.nodes[n]["type"], bool(g0.nodes[n].get("output"))) for n in g0.nodes)
        n1 = sorted((n, g1.nodes[n].get("type"), bool(g1.nodes[n].get("output"))) for n in g1.nodes)
        if n0 != n1 or sorted(g0.edges) != sorted(g1.edges):
            d1 = [x for x in n0 if x not in n1][:3] + [e for e in sorted(g0.edges) if e not in set(g1.edges)][:3]
            d2 = [x for x in n1 if x not in n0][:3] + [e for e in sorted(g1.edges) if e not in set(g0.edges)][:3]
            acc.violation(site, "graph-not-identical", case, f"only original {d1}; only read-back {d2}")
            return
    acc.outcome("roundtrip-ok")


LEGAL_ID = re.compile(r"^(?:[A-Za-z_][A-Za-z0-9_$]*|\\\S+)$")


def check(acc, desc, behavioral, site="circuits", via_file=False, variant=None):
    """variant: None | "rev" (nodes inserted in reverse order) | "hist" (the same circuit object is written and read
    back once BEFORE one of its gates gets its final type in place; the round trip after the edit is judged)."""
    import circuitgraph as cg

    case = {"kind": "roundtrip", "desc": desc, "behavioral": behavioral, "site": site, "via_file": via_file, "variant": variant}
    if variant == "hist":
        c, finish = space.build_pre(desc)
        if c is None:
            return
        try:
            t0 = cg.io.circuit_to_verilog(c, behavioral=behavioral)
            cg.io.verilog_to_circuit(t0, c.name, blackboxes=bb_objects())
        except Exception as e:  # noqa: BLE001
            acc.violation(site, f"roundtrip-before-edit-raises:{common.exc_name(e)}", case, repr(e)[:300])
            return
        finish()
    else:
        c = space.build(desc, order=variant if variant == "rev" else None)
    has_const = any(c.graph.nodes[n]["type"] in ("0", "1", "x") for n in c.graph.nodes)
    acc.transitions += 1
    if via_file:
        d = tempfile.mkdtemp(prefix="mcv_c03_")
        p = os.path.join(d, f"{c.name}.v")
        try:
            try:
                cg.to_file(c, p, behavioral=behavioral)
                text = open(p).read()
                r = cg.from_file(p, blackboxes=bb_objects())
            except Exception as e:  # noqa: BLE001
                acc.violation(site, f"file-roundtrip-raises:{common.exc_name(e)}", case, repr(e)[:300])
                return
        finally:
            if os.path.exists(p):
                os.remove(p)
            os.rmdir(d)
    else:
        try:
            text = cg.io.circuit_to_verilog(c, behavioral=behavioral)
        except Exception as e:  # noqa: BLE001
            acc.violation(site, f"writer-raises:{common.exc_name(e)}", case, repr(e)[:300])
            return
        try:
            r = cg.io.verilog_to_circuit(text, c.name, blackboxes=bb_objects())
            if variant == "twice" and all(LEGAL_ID.match(n) for n in r.graph.nodes if "." not in n):
                # what was read back is written and read once more (the writer's own spelling of constants,
                # helper names ... goes through the reader a second time).  Only when every name of the
                # intermediate circuit is a legal identifier: from escaped operands the reader derives helper
                # names such as and_\a[0]_b, which are outside the property's quantifier.
                text = cg.io.circuit_to_verilog(r, behavioral=behavioral)
                r = cg.io.verilog_to_circuit(text, c.name, blackboxes=bb_objects())
        except Exception as e:  # noqa: BLE001
            acc.violation(site, f"reader-raises:{common.exc_name(e)}", dict(case, text=text), repr(e)[:300])
            return
    compare(acc, c, r, dict(case, text=text), site, identical=(not has_const and not behavioral and variant != "twice"))
    acc.observe(text)


def run(job):
    common.setup_paths()
    acc = Acc(job)
    sub = job["sub"]
    if sub == "circuits":
        for _idx, desc in space.chunk(corpus(job["tier"]), job["chunk"], job["of"]):
            for beh in (False, True):
                acc.states += 1
                acc.nontrivial += 1
                check(acc, desc, beh)
                every = 6 if job["tier"] == "quick" else 18
                if (_idx // job["of"]) % every == 0:
                    acc.states += 2
                    check(acc, desc, beh, variant="rev")
                    check(acc, desc, beh, variant="hist")
                if (_idx // job["of"]) % every == 3 or (any(x[1] in ("0", "1", "x") for x in desc["nodes"]) and (_idx // job["of"]) % (every // 6) == 0):
                    acc.states += 1
                    check(acc, desc, beh, variant="twice")
            acc.sample({"desc": desc})
            if acc.out_of_time():
                break
    elif sub == "bb":
        for _idx, desc in space.chunk(bb_corpus(), job["chunk"], job["of"]):
            for beh in (False, True):
                acc.states += 1
                acc.nontrivial += 1
                check(acc, desc, beh, site="bb")
                acc.states += 2
                check(acc, desc, beh, site="bb", variant="rev")
                check(acc, desc, beh, site="bb", variant="hist")
                acc.states += 1
                check(acc, desc, beh, site="bb", variant="twice")
            acc.sample({"desc": desc})
    else:
        k = 0
        for desc in itertools.chain(bb_corpus(), itertools.islice(corpus(job["tier"]), 0, 4000, 97)):
            k += 1
            for beh in (False, True):
                acc.states += 1
                acc.nontrivial += 1
                check(acc, desc, beh, site="file", via_file=True)
        acc.sample({"desc": desc})
    return acc.result()


def replay(case, job):
    common.setup_paths()
    acc = Acc(job)
    check(acc, case["desc"], case["behavioral"], site=case.get("site", "circuits"), via_file=case.get("via_file", False),
          variant=case.get("variant"))
    return acc.result()
