"""C06 - hierarchical composition is functional substitution.

Exploration: all operation histories up to a depth over
  S(child, name, conn)  add_subcircuit          B(child, name, conn)  add_blackbox of the child's interface
  F(name)               fill_blackbox            X(ignore)             strip_blackboxes (terminal)
on a fixed parent (inputs a, b; g = and(a, b); undriven socket buffers w1, w2; o = or(g, w1) output).
  single : every child of the enumerated space x every connection map (inputs from {a, b, g, unattached},
           outputs to {w1, w2, unattached}) x both routes (S, and B followed by F).
  hist   : a small child set (incl. a child holding a blackbox, a feed-through child, a constant child)
           instantiated twice (u1, u2), the second one may attach to nodes of the first; all interleavings.
The reference model is a hierarchy tree (parent netlist + instance records) evaluated hierarchically by
refsim - children are evaluated separately and never flattened.
"""
import itertools

from mcv import common, refsim, snapshot, space
from mcv.common import Acc

ID = "C06"
MECHANISM = ["circuit.add_subcircuit", "circuit.fill_blackbox", "circuit.add_blackbox", "tx.strip_blackboxes"]
RULE = ("case = operation history (list of S/B/F/X operations with child and connection map); distinct = distinct history; "
        "non-trivial = at least one child output drives a parent socket (so parent functions depend on the child)")
ASSUMPTIONS = ["connection maps keep the design acyclic (child inputs attach to a, b, g or nodes of an earlier instance; outputs to sockets)",
               "strip_blackboxes: ignore_pins is exercised on input pins only (ignoring a connected output pin leaves its load undriven by design)"]

PARENT = {"name": "parent", "nodes": [["a", "input", [], False], ["b", "input", [], False], ["g", "and", ["a", "b"], False],
                                      ["w1", "buf", [], False], ["w2", "buf", [], False], ["o", "or", ["g", "w1"], True],
                                      # a plain node whose name contains a dot (escaped / flattened names); not a pin
                                      ["v.n", "not", ["a"], False]]}
SOCKETS = ["w1", "w2"]


def bounds(tier):
    q = tier == "quick"
    return {"single_children": [[1, 2, 3], [2, 2, 2]] if q else [[1, 2, 3], [2, 2, 3], [3, 1, 3]], "hist_depth": 3 if q else 4}


def jobs(tier, seed):
    n = 24 if tier == "quick" else 96
    js = [{"sub": "single", "chunk": i, "of": n} for i in range(n)]
    m = 16 if tier == "quick" else 64
    js += [{"sub": "hist", "chunk": i, "of": m} for i in range(m)]
    js.append({"sub": "single", "chunk": 0, "of": n, "hashseed": 1 + seed % 1000, "primary": False})
    js.append({"sub": "hist", "chunk": 0, "of": m, "hashseed": 1 + seed % 1000, "primary": False})
    return js


# --- children -------------------------------------------------------------------------------------------


def child_ports(desc):
    ins = [n for n, t, _f, _o in desc["nodes"] if t == "input"]
    outs = [n for n, _t, _f, o in desc["nodes"] if o]
    return ins, outs


HIST_CHILDREN = {
    "inv": {"name": "inv", "nodes": [["a", "input", [], False], ["y", "not", ["a"], True]]},
    "and2": {"name": "and2", "nodes": [["a", "input", [], False], ["b", "input", [], False], ["y", "and", ["a", "b"], True]]},
    "two": {"name": "two", "nodes": [["a", "input", [], False], ["b", "input", [], False], ["y", "xor", ["a", "b"], True],
                                     ["z", "nor", ["a", "y"], True]]},
    "withbb": {"name": "withbb", "nodes": [["a", "input", [], False], ["q", "buf", [], False], ["y", "xor", ["a", "q"], True]],
               "bbs": [["m", "leaf", ["i"], ["o"], {"i": "a", "o": "q"}]]},
    "withbb2": {"name": "withbb2", "nodes": [["a", "input", [], False], ["nq", "buf", [], False], ["y", "nand", ["a", "nq"], True]],
                "bbs": [["m", "leaf2", ["ck", "sck"], ["q", "nq"], {"ck": "a", "sck": "a", "nq": "nq"}]]},
    "feed": {"name": "feed", "nodes": [["a", "input", [], True], ["y", "not", ["a"], True]]},
    "const": {"name": "const", "nodes": [["k", "1", [], False], ["a", "input", [], False], ["y", "nand", ["a", "k"], True]]},
}


# --- hierarchical reference ----------------------------------------------------------------------------------


class Inst:
    def __init__(self, name, child, conn, status):
        self.name, self.child, self.conn, self.status = name, child, dict(conn), status
        self.ins, self.outs = child_ports(child)
        self.outs = [o for o in self.outs if o not in self.ins]

    def flat(self, n):
        return f"{self.name}_{n}"


def free_names(insts):
    fr = ["a", "b"]
    driven = set()
    for it in insts:
        for o in it.outs:
            if o in it.conn:
                driven.add(it.conn[o])
        if it.status == "spliced":
            fr += [it.flat(x) for x in it.ins if x not in it.conn]
            for _inst, _bb, _i, outs, _c in it.child.get("bbs", []):
                fr += [it.flat(f"{_inst}.{p}") for p in outs]
        else:
            fr += [f"{it.name}.{o}" for o in it.outs]
    fr += [w for w in SOCKETS if w not in driven]
    return fr


def hier_values(insts):
    """node (flat name) -> table, by evaluating the parent and each spliced child separately."""
    fr = free_names(insts)
    assign0, full = refsim.free_assign(fr)
    pg = space.build(PARENT).graph
    vals = {}
    sock = {w: assign0.get(w, (0, 0)) for w in SOCKETS}
    children = {it.name: space.build(it.child).graph for it in insts if it.status == "spliced"}
    for _ in range(len(insts) + 3):
        pa = {"a": assign0["a"], "b": assign0["b"]}
        pa.update(sock)
        new = dict(refsim.evaluate(pg, pa, full))
        for it in insts:
            if it.status == "spliced":
                ca = {}
                for x in it.ins:
                    if x in it.conn:
                        ca[x] = new.get(it.conn[x], vals.get(it.conn[x], (0, 0)))
                    else:
                        ca[x] = assign0[it.flat(x)]
                g = children[it.name]
                for n in g.nodes:
                    if g.nodes[n]["type"] == "bb_output":
                        ca[n] = assign0[it.flat(n)]
                cv = refsim.evaluate(g, ca, full)
                for n, v in cv.items():
                    new[it.flat(n)] = v
            else:
                for x in it.ins:
                    if x in it.conn:
                        new[f"{it.name}.{x}"] = new.get(it.conn[x], vals.get(it.conn[x], (0, 0)))
                for o in it.outs:
                    new[f"{it.name}.{o}"] = assign0[f"{it.name}.{o}"]
        nsock = dict(sock)
        for it in insts:
            for o in it.outs:
                if o in it.conn:
                    src = it.flat(o) if it.status == "spliced" else f"{it.name}.{o}"
                    nsock[it.conn[o]] = new[src]
        if new == vals and nsock == sock:
            return vals, fr, full
        vals, sock = new, nsock
    raise refsim.RefError("hierarchy did not converge (cyclic composition?)")


def dangling_pins(insts):
    """Unconnected input pins of pending blackboxes carry no defined value: pin them to 0."""
    return {f"{it.name}.{x}": (0, 0) for it in insts if it.status == "pending" for x in it.ins if x not in it.conn}


def check_state(acc, c, insts, case, site):
    """Compare the live flat circuit with the hierarchy."""
    want_in, want_out = {"a", "b"}, {"o"}
    if set(c.inputs()) != want_in or set(c.outputs()) != want_out:
        acc.violation(site, "parent-io-changed", case, f"inputs {sorted(c.inputs())} outputs {sorted(c.outputs())}")
        return False
    # registry
    want_reg = {}
    for it in insts:
        if it.status == "pending":
            want_reg[it.name] = (set(it.ins), set(it.outs))
        else:
            for inst, _bb, ins, outs, _c in it.child.get("bbs", []):
                want_reg[f"{it.name}_{inst}"] = (set(ins), set(outs))
    got_reg = {k: (set(b.inputs()), set(b.outputs())) for k, b in c.blackboxes.items()}
    if got_reg != want_reg:
        acc.violation(site, "registry-wrong", case, f"registry {sorted(got_reg)} expected {sorted(want_reg)}")
        return False
    for k, (ins, outs) in want_reg.items():
        for p in ins | outs:
            t = c.graph.nodes.get(f"{k}.{p}", {}).get("type")
            if t != ("bb_input" if p in ins else "bb_output"):
                acc.violation(site, "pin-missing-or-mistyped", case, f"{k}.{p}: {t}")
                return False
    for it in insts:
        if it.status == "spliced":
            for p in it.ins + it.outs:
                if f"{it.name}.{p}" in c.graph:
                    acc.violation(site, "filled-blackbox-pin-still-present", case, f"{it.name}.{p}")
                    return False
    try:
        want, fr, full = hier_values(insts)
    except refsim.RefError as e:
        acc.violation(site, "reference-failed", case, repr(e))
        return False
    assign, _ = refsim.free_assign(fr)
    assign.update(dangling_pins(insts))
    try:
        val = refsim.evaluate(c.graph, assign, full)
    except (refsim.RefError, KeyError) as e:
        acc.violation(site, "flat-circuit-unevaluable", case, repr(e))
        return False
    for n, w in want.items():
        if n not in val:
            acc.violation(site, "expected-node-missing", case, n)
            return False
        if val[n] != w:
            kind = "spliced-node" if "_" in n and n.split("_")[0] in {it.name for it in insts} else "pre-existing-node"
            acc.violation(site, f"{kind}-function-differs", dict(case, node=n), f"node {n}")
            return False
    acc.observe(sorted((n, hex(v[0])) for n, v in want.items()))
    return True


def prime_strip(c):
    """Earlier strip_blackboxes calls on the same object - one while gate g still carries another type (edited back
    in place afterwards), all with their results scrambled by the caller - must not influence the judged calls."""
    import circuitgraph as cg

    for ign in (None, "__none__"):
        try:
            c.set_type("g", "or")
            space.scramble(cg.tx.strip_blackboxes(c) if ign is None else cg.tx.strip_blackboxes(c, ignore_pins=None))
        except Exception:  # noqa: BLE001
            pass
        finally:
            c.set_type("g", "and")
        try:
            space.scramble(cg.tx.strip_blackboxes(c))
        except Exception:  # noqa: BLE001
            pass


def check_strip(acc, c, insts, case, ignore):
    import circuitgraph as cg

    acc.transitions += 1
    cc = dict(case, strip_ignore=ignore)
    try:
        # the identical call made before, its result edited by the caller
        space.scramble(cg.tx.strip_blackboxes(c, ignore_pins=ignore))
        r = cg.tx.strip_blackboxes(c, ignore_pins=ignore)
    except Exception as e:  # noqa: BLE001
        flat = [n.replace(".", "_") for n in c.graph.nodes if c.graph.nodes[n]["type"] in ("bb_input", "bb_output")
                and n.split(".")[-1] not in ([] if ignore is None else [ignore] if isinstance(ignore, str) else list(ignore))]
        if isinstance(e, ValueError) and len(set(flat)) < len(flat):
            acc.outcome("strip-refused-colliding-pin-names")   # two pins would get one name: refusing is right
            return
        acc.violation("strip", f"raises:{common.exc_name(e)}", cc, repr(e))
        return
    if r.blackboxes:
        acc.violation("strip", "blackboxes-remain", cc, sorted(r.blackboxes))
        return
    ign = [] if ignore is None else [ignore] if isinstance(ignore, str) else list(ignore)
    try:
        want, fr, full = hier_values(insts)
    except refsim.RefError:
        return
    ren = lambda n: n.replace(".", "_")
    exp_in, exp_out = {"a", "b"}, {"o"}
    for n in c.graph.nodes:
        t = c.graph.nodes[n]["type"]
        pin = n.split(".")[-1]
        if t == "bb_output" and pin not in ign:
            exp_in.add(ren(n))
        if t == "bb_input" and pin not in ign:
            exp_out.add(ren(n))
    if set(r.inputs()) != exp_in or set(r.outputs()) != exp_out:
        acc.violation("strip", "io-wrong", cc, f"inputs {sorted(r.inputs())} outputs {sorted(r.outputs())}; expected {sorted(exp_in)} / {sorted(exp_out)}")
        return
    kept_flat = {ren(m) for m in c.graph.nodes if "." in m and m.split(".")[-1] not in ign}
    for n in c.graph.nodes:
        if "." in n and n.split(".")[-1] in ign and (n in r.graph or (ren(n) in r.graph and ren(n) not in kept_flat)):
            acc.violation("strip", "ignored-pin-present", cc, n)
            return
    assign, _ = refsim.free_assign(fr)
    assign.update(dangling_pins(insts))
    a2 = {ren(k) if k not in r.graph else k: v for k, v in assign.items()}
    try:
        val = refsim.evaluate(r.graph, {k: v for k, v in a2.items()}, full)
    except (refsim.RefError, KeyError) as e:
        acc.violation("strip", "result-unevaluable", cc, repr(e))
        return
    pin_names = {x for x in c.graph.nodes if c.graph.nodes[x]["type"] in ("bb_input", "bb_output")}
    for n, w in want.items():
        m = n if (n in val or n not in pin_names) else ren(n)   # only pins are renamed inst.pin -> inst_pin
        if n in pin_names and n.split(".")[-1] in ign:
            continue
        if m not in val or val[m] != w:
            acc.violation("strip", "function-differs-after-strip", dict(cc, node=n), f"node {n}")
            return
    acc.outcome("strip-ok")


# --- operations ------------------------------------------------------------------------------------------------


def apply_op(acc, c, insts, op, case, site, pool=None):
    """op = [kind, child key/desc, name, conn] ; mutates c and insts.  Returns False when the call raised.

    pool (a dict, one per history) switches argument objects from 'fresh per call' to 'one object per distinct
    value': the same child Circuit, the same BlackBox definition and the same connection dict are then handed to
    every call of the history that uses them - as a caller instantiating one definition several times does."""
    import circuitgraph as cg

    def pooled(kind_, key, make):
        if pool is None:
            return make()
        k = (kind_, common.jdump(key))
        if k not in pool:
            pool[k] = make()
        return pool[k]

    kind = op[0]
    acc.transitions += 1
    try:
        if kind == "S":
            child = op[1]
            conn = pooled("conn", op[3], lambda: dict(op[3])) if op[3] else None
            c.add_subcircuit(pooled("circuit", child, lambda: space.build(child)), op[2], conn)
            insts.append(Inst(op[2], child, op[3], "spliced"))
        elif kind == "B":
            child = op[1]
            ins, outs = child_ports(child)
            conn = pooled("conn", op[3], lambda: dict(op[3])) if op[3] else None
            c.add_blackbox(pooled("bb", child, lambda: cg.BlackBox(child["name"], ins, outs)), op[2], conn)
            insts.append(Inst(op[2], child, op[3], "pending"))
        elif kind == "F":
            it = next(i for i in insts if i.name == op[2])
            c.fill_blackbox(op[2], pooled("circuit", it.child, lambda: space.build(it.child)))
            it.status = "spliced"
        elif kind == "FX":
            # fill with a child whose interface is NOT the blackbox's: rejecting (ValueError, nothing changed) is fine;
            # accepting is fine only if the result still is a functional substitution (decided by check_state)
            it = next(i for i in insts if i.name == op[2])
            alt, how = alt_child(it.child, op[1])
            try:
                c.fill_blackbox(op[2], space.build(alt))
            except ValueError:
                acc.outcome("FX-rejected")
                return True
            if how == "swapped":
                acc.violation(site, "fill-accepted-child-with-swapped-directions", case,
                              f"blackbox {op[2]} ({it.ins} -> {it.outs}) filled with a child whose inputs are {child_ports(alt)[0]}")
                return False
            it.child, it.status = alt, "spliced"
            acc.outcome("FX-accepted")
            return "stop"
    except Exception as e:  # noqa: BLE001
        if len(op) > 4 and op[4] == "collide" and isinstance(e, ValueError):
            # the carried-over sub-blackbox would take a registry name the parent already uses: must be refused
            if kind == "S":
                insts.pop() if insts and insts[-1].name == op[2] else None
            acc.outcome(f"{kind}-rejected")
            return "stop-unchanged"
        acc.violation(site, f"{kind}-raises:{common.exc_name(e)}", case, repr(e))
        return False
    if len(op) > 4 and op[4] == "collide":
        acc.violation(site, f"{kind}-accepted-colliding-sub-blackbox-name", case,
                      f"registry now {sorted(c.blackboxes)}: one key for two different blackboxes")
        return False
    acc.outcome(f"{kind}-ok")
    return True


def alt_child(child, how):
    """A child with the same port NAMES as ``child`` but another interface."""
    ins, outs = child_ports(child)
    outs = [o for o in outs if o not in ins]
    if how == "swapped":
        nodes = [[o, "input", [], False] for o in outs]
        for i in ins:
            nodes.append([i, "not" if outs else "1", [outs[0]] if outs else [], True])
        return {"name": child["name"] + "_swapped", "nodes": nodes}, how
    alt = {"name": child["name"] + "_feedout", "nodes": [list(x) for x in child["nodes"]]}
    for x in alt["nodes"]:
        if x[1] == "input":
            x[3] = True      # the first input is also flagged as an output of the child
            break
    return alt, how


def conn_maps(child, in_targets, sockets):
    ins, outs = child_ports(child)
    outs = [o for o in outs if o not in ins]  # a port that is both is attached as an input only
    for iv in itertools.product(in_targets + [None], repeat=len(ins)):
        for ov in itertools.permutations(sockets + [None] * len(outs), len(outs)):
            conn = {x: t for x, t in zip(ins, iv) if t is not None}
            seen = set()
            dup = False
            for o, t in zip(outs, ov):
                if t is not None:
                    if (o, t) in seen:
                        dup = True
                    seen.add((o, t))
                    conn[o] = t
            if not dup:
                yield conn


def uniq(seq):
    out, seen = [], set()
    for x in seq:
        k = common.jdump(x)
        if k not in seen:
            seen.add(k)
            out.append(x)
    return out


def run_history(acc, ops, site, strip=True, shared=False):
    """Run one history from the fresh parent, checking after every op."""
    c = space.build(PARENT)
    insts = []
    pool = {} if shared else None
    for i, op in enumerate(ops):
        case = {"kind": "history", "ops": ops[: i + 1], "site": site, "shared": shared}
        twin = c.copy()                       # a copy taken before the call must not feel the call
        twin_reg = sorted(twin.blackboxes)
        twin_nodes = len(twin.graph)
        r = apply_op(acc, c, insts, op, case, site, pool)
        if not r:
            return False
        if sorted(twin.blackboxes) != twin_reg or len(twin.graph) != twin_nodes:
            acc.violation(site, "earlier-copy-of-the-parent-changed", case,
                          f"registry of a copy taken before {op[0]}: {twin_reg} -> {sorted(twin.blackboxes)}")
            return False
        if not check_state(acc, c, insts, case, site):
            return False
        if r in ("stop", "stop-unchanged"):
            break
    if strip and c.blackboxes:
        case = {"kind": "history", "ops": ops, "site": site, "shared": shared}
        prime_strip(c)
        for ign in strip_ignores(c):
            check_strip(acc, c, insts, case, ign)
    check_self(acc, c, {"kind": "history", "ops": ops, "site": site, "shared": shared})
    return True


def check_self(acc, c, case, only=None):
    """The circuit reached by the history is instantiated inside ITSELF (add_subcircuit(c, name, conn) with c as the
    child: two copies of a design side by side).  Differential oracle: the call with the very object as the child must
    do exactly what the call with an independent copy of it as the child does on an independent copy of the parent -
    the same circuit and registry afterwards, or the same kind of refusal with the parent left as it was.  The
    non-aliased call is what every other history of this check judges against the hierarchical reference."""
    conns = [None, {"a": "a"}, {"a": "b", "b": "a"}]
    for conn in conns:
        if only is not None and common.jdump(conn) != common.jdump(only):
            continue
        acc.transitions += 1
        res = []
        for aliased in (True, False):
            x = snapshot.clone(c)
            child = x if aliased else snapshot.clone(c)
            try:
                x.add_subcircuit(child, "s9", dict(conn) if conn else None)
                res.append(("ok", snapshot.key(x)))
            except Exception as e:  # noqa: BLE001
                res.append((common.exc_name(e), snapshot.key(x)))
        if res[0] != res[1]:
            acc.violation("self-child", f"aliased:{res[0][0]}/copy:{res[1][0]}", dict(case, self_child=conn),
                          "add_subcircuit(c, 's9', conn) with c itself as the child differs from the same call with a copy of c as the child"
                          + ("" if res[0][0] == res[1][0] else f" ({res[0][0]} vs {res[1][0]})"))
            return
        acc.outcome("self-child-" + ("ok" if res[0][0] == "ok" else "refused"))


def strip_ignores(c):
    """None, every input pin name alone (str and list form), all input pins, and every UNCONNECTED output pin name."""
    pins_in = sorted({p for b in c.blackboxes.values() for p in b.inputs()})
    out = [None]
    for p in pins_in:
        out += [p, [p]]
    if len(pins_in) > 1:
        out.append(pins_in)
    for k, b in c.blackboxes.items():
        for p in sorted(b.outputs()):
            if not c.graph.succ[f"{k}.{p}"] and not any(c.graph.succ[f"{k2}.{p}"] for k2, b2 in c.blackboxes.items() if p in b2.outputs()):
                if p not in out:
                    out.append(p)
    return out


def run_single(job, acc):
    b = bounds(job["tier"])

    def children():
        for I, G, ar in b["single_children"]:
            for gates in space.circuits(I, G, max_arity=ar, min_gates=1):
                d = space.to_desc(I, gates, outputs="sinks", name="child")
                yield d
        for k in ("withbb", "withbb2", "feed", "const", "two"):
            yield HIST_CHILDREN[k]

    for _idx, child in space.chunk(children(), job["chunk"], job["of"]):
        ins, outs = child_ports(child)
        feed = bool(set(ins) & set(outs))
        for nconn, conn in enumerate(uniq(conn_maps(child, ["a", "b", "g"], SOCKETS))):
            nt = any(o in conn for o in outs)
            for route in ("S", "BF"):
                if route == "BF" and feed:
                    continue
                ops = [["S", child, "u1", conn]] if route == "S" else [["B", child, "u1", conn], ["F", None, "u1", None]]
                acc.states += 1
                if nt:
                    acc.nontrivial += 1
                run_history(acc, ops, "single")
                if route == "BF" and nconn % 3 == 0 and child_ports(child)[0]:
                    for how in ("swapped", "feedout"):
                        acc.states += 1
                        run_history(acc, [["B", child, "u1", conn], ["FX", how, "u1", None], ["F", None, "u1", None]], "single", strip=False)
                if route == "BF" and child.get("name") != "child":
                    # a hierarchical-looking instance name (flattened designs): core.m1
                    acc.states += 1
                    run_history(acc, [["B", child, "core.m1", conn], ["F", None, "core.m1", None]], "single", strip=False)
        acc.sample({"child": child})
        if acc.out_of_time():
            break


def hist_sequences(depth):
    """All histories with two instance names u1, u2 up to ``depth`` API calls."""
    keys = sorted(HIST_CHILDREN)
    for k1 in keys:
        c1 = HIST_CHILDREN[k1]
        feed1 = bool(set(child_ports(c1)[0]) & set(child_ports(c1)[1]))
        maps1 = uniq(conn_maps(c1, ["a", "g"], ["w1"]))
        for m1 in maps1:
            for r1 in (("S",) if feed1 else ("S", "B")):
                for k2 in keys:
                    c2 = HIST_CHILDREN[k2]
                    feed2 = bool(set(child_ports(c2)[0]) & set(child_ports(c2)[1]))
                    free_s = [w for w in SOCKETS if w not in m1.values()]
                    for r2 in (("S",) if feed2 else ("S", "B")):
                        for order in (["1", "2", "F1", "F2"], ["1", "2", "F2", "F1"], ["1", "F1", "2", "F2"]):
                            targets = ["b", "g"]
                            if r1 == "S" or order.index("F1") < order.index("2"):
                                targets = targets + [f"u1_{n}" for n in ([x[0] for x in c1["nodes"] if x[1] not in ("input",)][:1])]
                            for m2 in uniq(conn_maps(c2, targets, free_s[:1])):
                                ops = []
                                for step in order:
                                    if step == "1":
                                        ops.append([r1, c1, "u1", m1])
                                    elif step == "2":
                                        ops.append([r2, c2, "u2", m2])
                                    elif step == "F1" and r1 == "B":
                                        ops.append(["F", None, "u1", None])
                                    elif step == "F2" and r2 == "B":
                                        ops.append(["F", None, "u2", None])
                                if len(ops) <= depth:
                                    yield ops
                                for cut in range(2, len(ops)):
                                    if cut <= depth and len(ops) > depth:
                                        yield ops[:cut]


PINM = {"name": "pinm", "nodes": [["m_a", "input", [], False], ["z", "not", ["m_a"], True]]}


def collision_sequences():
    """The parent already holds a blackbox instance called u1_m when u1 (whose child holds a sub-blackbox m) arrives."""
    inv = HIST_CHILDREN["inv"]
    for k1 in ("withbb", "withbb2"):
        c1 = HIST_CHILDREN[k1]
        for m1 in uniq(conn_maps(c1, ["a", "g"], ["w1"]))[:3]:
            yield [["B", c1, "u1", m1], ["B", inv, "u1_m", {}], ["F", None, "u1", None, "collide"]]
            yield [["B", inv, "u1_m", {"a": "b"}], ["B", c1, "u1", m1], ["F", None, "u1", None, "collide"]]
            yield [["B", inv, "u1_m", {}], ["S", c1, "u1", m1, "collide"]]
    # two different pins that strip_blackboxes would both call u1_m_a (instance u1 pin m_a, instance u1_m pin a)
    for c1m, c2m in (({}, {}), ({"m_a": "a"}, {"a": "b"}), ({"m_a": "g", "z": "w1"}, {"a": "a"})):
        yield [["B", PINM, "u1", c1m], ["B", inv, "u1_m", c2m]]
        yield [["B", inv, "u1_m", c2m], ["B", PINM, "u1", c1m]]


def run_hist(job, acc):
    depth = bounds(job["tier"])["hist_depth"]
    seen = set()
    idx = 0
    for ops in itertools.chain(collision_sequences(), hist_sequences(depth)):
        k = common.jdump(ops)
        if k in seen:
            continue
        seen.add(k)
        idx += 1
        if idx % job["of"] != job["chunk"]:
            continue
        acc.states += 1
        if any(o in (op[3] or {}) for op in ops if op[1] for o in child_ports(op[1])[1]):
            acc.nontrivial += 1
        run_history(acc, ops, "hist")
        kids = [common.jdump(op[1]) for op in ops if op[1]]
        conns = [common.jdump(op[3]) for op in ops if op[3]]
        if len(set(kids)) < len(kids) or len(set(conns)) < len(conns):
            # one definition instantiated twice / one port map used twice: same argument OBJECTS this time
            acc.states += 1
            acc.nontrivial += 1
            run_history(acc, ops, "hist", strip=False, shared=True)
        if idx % 200 == 0:
            acc.sample({"ops": [[o[0], (o[1] or {}).get("name"), o[2], o[3]] for o in ops]})
        if acc.out_of_time():
            break
    acc.extra["distinct_histories_seen_by_worker"] = len(seen)


def run(job):
    common.setup_paths()
    acc = Acc(job)
    (run_single if job["sub"] == "single" else run_hist)(job, acc)
    return acc.result()


def replay(case, job):
    common.setup_paths()
    acc = Acc(job)
    ops = case["ops"]
    c = space.build(PARENT)
    insts = []
    ok = True
    pool = {} if case.get("shared") else None
    for i, op in enumerate(ops):
        cs = {"kind": "history", "ops": ops[: i + 1], "shared": bool(case.get("shared"))}
        r = apply_op(acc, c, insts, op, cs, case.get("site", "single"), pool)
        if not r:
            ok = False
            break
        if not check_state(acc, c, insts, cs, case.get("site", "single")):
            ok = False
            break
    if ok and "self_child" in case:
        check_self(acc, c, case, only=case["self_child"])
        return acc.result()
    if ok and c.blackboxes:
        ign = case.get("strip_ignore", "__all__")
        prime_strip(c)
        for ig in (strip_ignores(c) if ign == "__all__" else [ign]):
            check_strip(acc, c, insts, {"kind": "history", "ops": ops}, ig)
    return acc.result()
