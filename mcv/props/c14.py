"""C14 - the fast Verilog parser agrees with the full parser on its documented subset.

Programs of the restricted subset (one module, no comments, named primitive instances one per statement,
assigns of a net or constant, 1'b0/1'b1 constants, named-port blackbox instances, all outputs driven) are
generated from mcv.vsyntax's module AST and printed in the writer's style and in a synthesis-tool style.
  space   : netlists derived from the enumerated circuit space (any gate mix, arity 1..4, constants as operands
            and in assigns), both styles, forward / reversed / rotated statement order.
  perm    : every netlist of a small family in ALL statement permutations.
  bb      : blackbox instances with connected / .p() / omitted pins, constants on pins.
  layout  : all placements of <= 1 (2) white-space deviations {none where legal, two blanks, tab, newline} in
            every gap except between a closing ')' and its ';'.
  bundled : every bundled library netlist that satisfies the restrictions (comment-stripped).
Oracle: differential - same inputs, outputs, blackbox instances and pin connections, identical graphs after
mapping the shared constant node names; plus (space) the denotation of the AST via refsim.
"""
import itertools
import os
import re

from mcv import common, refsim, space
from mcv import vsyntax as V
from mcv.common import Acc

ID = "C14"
MECHANISM = ["parsing.fast_verilog.fast_parse_verilog_netlist", "parsing.verilog.parse_verilog_netlist", "io.verilog_to_circuit"]
RULE = ("case = program text; distinct = distinct text; non-trivial = the text has at least one instance or assign")
ASSUMPTIONS = ["')' and ';' of a header / instance are adjacent (stated by the property)",
               "graph identity is judged on node names, type, output mark (missing = False) and edges, after renaming tie0/tie1 <-> tie_0/tie_1"]
BB_DEFS = {"ff": (["clk", "d"], ["q"]), "two": (["i"], ["o1", "o2"]),
           # library cells called like a primitive but for the case (type names are case sensitive)
           "BUF": (["A"], ["Y"]), "Nand": (["A", "B"], ["Y"])}
WS_DEV = ["", "  ", "\t", "\n"]


def bounds(tier):
    q = tier == "quick"
    return {"spaces": [[2, 1, 3, None], [1, 2, 4, None], [2, 2, 2, ("and", "xor", "nor", "not", "buf")]] if q
            else [[2, 2, 3, None], [3, 2, 4, None], [2, 3, 2, ("and", "xor", "nor", "not", "buf")]], "layout_dev": 1 if q else 2,
            "bundled_max_bytes": 30000 if q else 200000}


def jobs(tier, seed):
    n = 24 if tier == "quick" else 96
    js = [{"sub": "space", "chunk": i, "of": n} for i in range(n)]
    js += [{"sub": "perm", "chunk": i, "of": 8} for i in range(8)]
    js += [{"sub": "bb", "chunk": i, "of": 4} for i in range(4)]
    m = 8 if tier == "quick" else 96
    js += [{"sub": "layout", "chunk": i, "of": m} for i in range(m)]
    js += [{"sub": "bundled"}, {"sub": "names"}, {"sub": "history"}]
    js.append({"sub": "space", "chunk": 0, "of": n, "hashseed": 1 + seed % 1000, "primary": False})
    return js


def bb_objects():
    import circuitgraph as cg

    return [cg.BlackBox(k, list(i), list(o)) for k, (i, o) in BB_DEFS.items()]


def canon(c):
    g = c.graph
    # the shared constant nodes are recognised by their type, whatever they are called
    ren = {n: f"<const{g.nodes[n].get('type')}>" for n in g.nodes if g.nodes[n].get("type") in ("0", "1")}
    # ... and so is the helper buffer of a REPEATED constant operand of a parity gate: both parsers call it
    # buf_<name of the constant node>, a name derived from the one name the property exempts
    for k in list(ren):
        for x in g.succ[k]:
            if x.startswith("buf_" + k) and g.nodes[x].get("type") == "buf" and set(g.pred[x]) == {k}:
                ren[x] = "buf_" + ren[k] + x[len("buf_" + k):]
    r = lambda n: ren.get(n, n)
    nodes = sorted((r(n), g.nodes[n].get("type"), bool(g.nodes[n].get("output", False))) for n in g.nodes)
    edges = sorted((r(u), r(v)) for u, v in g.edges)
    bbs = sorted((k, b.name, tuple(sorted(b.inputs())), tuple(sorted(b.outputs()))) for k, b in c.blackboxes.items())
    return nodes, edges, bbs


def check_text(acc, text, name, case, site, m=None):
    import circuitgraph as cg

    acc.transitions += 1
    cc = dict(case, text=text, site=site, name=name)
    try:
        full = cg.io.verilog_to_circuit(text, name, blackboxes=bb_objects())
    except Exception as e:  # noqa: BLE001
        acc.violation(site, f"full-parser-raises:{common.exc_name(e)}", cc, repr(e)[:300])
        return
    try:
        # an earlier fast parse of the same text, its result edited by the caller, must not matter
        space.scramble(cg.io.verilog_to_circuit(text, name, blackboxes=bb_objects(), fast=True))
        fast = cg.io.verilog_to_circuit(text, name, blackboxes=bb_objects(), fast=True)
    except Exception as e:  # noqa: BLE001
        acc.violation(site, f"fast-parser-raises:{common.exc_name(e)}", cc, repr(e)[:300])
        return
    try:
        fast.inputs(), fast.outputs()
    except Exception as e:  # noqa: BLE001
        acc.violation(site, f"fast-result-malformed:{common.exc_name(e)}", cc, repr(e)[:200])
        return
    if set(full.inputs()) != set(fast.inputs()):
        acc.violation(site, "inputs-differ", cc, f"fast {sorted(fast.inputs())} full {sorted(full.inputs())}")
        return
    if set(full.outputs()) != set(fast.outputs()):
        acc.violation(site, "outputs-differ", cc, f"fast {sorted(fast.outputs())} full {sorted(full.outputs())}")
        return
    a, b = canon(full), canon(fast)
    if a[2] != b[2]:
        acc.violation(site, "blackbox-instances-differ", cc, f"fast {b[2]} full {a[2]}")
        return
    if a[0] != b[0]:
        d1 = [x for x in a[0] if x not in b[0]][:3]
        d2 = [x for x in b[0] if x not in a[0]][:3]
        acc.violation(site, "nodes-differ", cc, f"only full {d1}; only fast {d2}")
        return
    if a[1] != b[1]:
        d1 = [x for x in a[1] if x not in b[1]][:3]
        d2 = [x for x in b[1] if x not in a[1]][:3]
        acc.violation(site, "edges-differ", cc, f"only full {d1}; only fast {d2}")
        return
    if m is not None:
        # absolute: the fast result denotes the AST
        den = V.Denotation(m, BB_DEFS)
        env, fr, fullm, undefined = den.tables()
        assign, _ = refsim.free_assign(fr)
        for n in fast.graph.nodes:
            if fast.graph.nodes[n].get("type") == "bb_input" and not fast.graph.pred[n]:
                assign[n] = (0, 0)
        try:
            val = refsim.evaluate(fast.graph, assign, fullm)
        except (refsim.RefError, KeyError) as e:
            acc.violation(site, "fast-result-unevaluable", cc, repr(e))
            return
        for net in sorted(set(den.outputs) | set(den.defs)):
            if net in env and net in val and (val[net][1] or val[net][0] != env[net]):
                acc.violation(site, "fast-net-function-wrong", dict(cc, net=net), f"net {net}")
                return
    acc.outcome("agree")


# --- generation from the circuit space -----------------------------------------------------------------------------


def desc_to_module(desc, style, assign_bufs):
    """style 0: writer-like (one declaration per net); 1: synthesis-like (multi-net declarations, extra wires)."""
    ins = [n for n, t, _f, _o in desc["nodes"] if t == "input"]
    outs = [n for n, _t, _f, o in desc["nodes"] if o]
    consts = {n: ("1'b0" if t == "0" else "1'b1") for n, t, _f, _o in desc["nodes"] if t in ("0", "1")}
    gates = [(n, t, fi) for n, t, fi, _o in desc["nodes"] if t not in ("input", "0", "1")]
    wires = [n for n, _t, _f in gates if n not in outs] + [n for n in consts if n not in outs]
    items = []
    if style == 0:
        items += [["input", [i]] for i in ins] + [["output", [o]] for o in outs] + [["wire", [w]] for w in wires]
    else:
        items += [["input", ins]] if ins else []
        items += [["output", outs]]
        items += [["wire", wires + [o for o in outs if o not in ins]]] if wires or outs else []
    for n, k in consts.items():
        items.append(["assign", [[n, ("c", k)]]])
    for i, (n, t, fi) in enumerate(gates):
        ops = [consts.get(f, f) if False else f for f in fi]
        if t == "buf" and assign_bufs:
            items.append(["assign", [[n, ("id", ops[0])]]])
        else:
            items.append(["gate", t, [[f"U{i}", [n] + ops]]])
    return {"name": desc.get("name", "top"), "ports": ins + [o for o in outs if o not in ins], "items": items}


def literal_consts(m):
    """Variant: constants used directly as gate operands instead of through an assign."""
    cmap = {}
    items = []
    for it in m["items"]:
        if it[0] == "assign" and it[1][0][1][0] == "c":
            cmap[it[1][0][0]] = it[1][0][1][1]
    if not cmap:
        return None
    outs = set()
    for it in m["items"]:
        if it[0] == "output":
            outs |= set(it[1])
    if outs & set(cmap):
        return None
    for it in m["items"]:
        if it[0] == "assign" and it[1][0][0] in cmap:
            continue
        if it[0] == "wire":
            w = [x for x in it[1] if x not in cmap]
            if w:
                items.append(["wire", w])
            continue
        if it[0] == "gate":
            inst, conns = it[2][0]
            items.append(["gate", it[1], [[inst, [conns[0]] + [cmap.get(x, x) for x in conns[1:]]]]])
            continue
        if it[0] == "assign":
            lhs, e = it[1][0]
            if e[0] == "id" and e[1] in cmap:
                e = ("c", cmap[e[1]])
            items.append(["assign", [[lhs, e]]])
            continue
        items.append(it)
    return dict(m, items=items)


def n_decl(m):
    return sum(1 for it in m["items"] if it[0] in ("input", "output", "wire"))


def stmt_orders(m):
    """Forward, statements reversed, statements rotated, declarations last."""
    k = n_decl(m)
    decl, st = m["items"][:k], m["items"][k:]
    yield m
    if len(st) > 1:
        yield dict(m, items=decl + list(reversed(st)))
        yield dict(m, items=decl + st[1:] + st[:1])
    yield dict(m, items=st + decl)


def run_space(job, acc):
    def descs():
        for I, G, ar, types in bounds(job["tier"])["spaces"]:
            for gates in space.circuits(I, G, types=types or space.ALL_GATES, max_arity=ar, min_gates=1):
                yield space.to_desc(I, gates, outputs="sinks")
        ctypes = ("and", "xor", "not") if job["tier"] == "quick" else space.ALL_GATES
        for gates in space.circuits(1, 2, types=ctypes, max_arity=2 if job["tier"] == "quick" else 3, consts=("0", "1"), min_gates=1):
            d = space.to_desc(1, gates, consts=("0", "1"), outputs="sinks")
            used = {f for _n, _t, fi, _o in d["nodes"] for f in fi}
            d["nodes"] = [x for x in d["nodes"] if x[1] not in ("0", "1") or x[0] in used or x[3]]
            yield d

    for idx, desc in space.chunk(descs(), job["chunk"], job["of"]):
        variants = []
        for style, ab in (((0, False), (1, True)) if job["tier"] == "quick" else ((0, False), (0, True), (1, False), (1, True))):
            if True:
                m = desc_to_module(desc, style, ab)
                variants.append(m)
                lc = literal_consts(m)
                if lc:
                    variants.append(lc)
        seen = set()
        for m in variants:
            for m2 in (stmt_orders(m) if (idx // job["of"]) % 4 == 0 else [m]):
                text = V.render(V.module_tokens(m2))
                if text in seen:
                    continue
                seen.add(text)
                acc.states += 1
                acc.nontrivial += 1
                check_text(acc, text, m2["name"], {"kind": "module", "module": m2}, "space", m2)
        acc.sample({"text": text})
        if acc.out_of_time():
            break
    acc.observe(acc.states)


A, B = ("id", "a"), ("id", "b")


def perm_family():
    fam = [
        [["input", ["a", "b"]], ["output", ["y"]], ["wire", ["w"]], ["gate", "nand", [["U0", ["w", "a", "b"]]]], ["gate", "not", [["U1", ["y", "w"]]]]],
        [["input", ["a", "b"]], ["output", ["y", "z"]], ["gate", "xor", [["U0", ["y", "a", "b", "1'b1"]]]], ["assign", [["z", ("id", "y")]]]],
        [["input", ["a"]], ["output", ["y", "z"]], ["assign", [["y", ("c", "1'b0")]]], ["gate", "or", [["U0", ["z", "a", "y"]]]]],
        [["input", ["a"]], ["output", ["y", "z"]], ["assign", [["y", ("c", "1'h1")]]], ["assign", [["z", ("c", "1'h0")]]]],
        [["input", ["a", "b"]], ["output", ["y"]], ["wire", ["q"]], ["bb", "ff", "f0", [["clk", "a"], ["d", "b"], ["q", "q"]]], ["gate", "buf", [["U0", ["y", "q"]]]]],
        [["input", ["a", "b"]], ["output", ["y"]], ["wire", ["w", "v"]], ["gate", "and", [["U0", ["w", "a", "b"]]]], ["gate", "nor", [["U1", ["v", "w", "a"]]]],
         ["gate", "xnor", [["U2", ["y", "v", "w", "b"]]]]],
        [["input", ["a"]], ["output", ["a_o", "y"]], ["assign", [["a_o", ("id", "a")]]], ["gate", "not", [["U0", ["y", "a_o"]]]]],
        # repeated operands: parity counts them, and/or do not
        [["input", ["a", "b"]], ["output", ["y", "z"]], ["gate", "xor", [["U0", ["y", "a", "a"]]]], ["gate", "xnor", [["U1", ["z", "a", "b", "a"]]]]],
        [["input", ["a", "b"]], ["output", ["y", "z"]], ["gate", "and", [["U0", ["y", "a", "a"]]]], ["gate", "xor", [["U1", ["z", "b", "b", "b"]]]]],
        # ... and the repeated operand is a constant literal
        [["input", ["a", "b"]], ["output", ["y", "z"]], ["gate", "xor", [["U0", ["y", "a", "1'b1", "1'b1"]]]], ["gate", "xnor", [["U1", ["z", "1'b0", "b", "1'b0"]]]]],
    ]
    for items in fam:
        ports = []
        for it in items:
            if it[0] in ("input", "output"):
                ports += it[1]
        yield {"name": "top", "ports": ports, "items": items}


def run_perm(job, acc):
    idx = 0
    for m in perm_family():
        for perm in itertools.permutations(range(len(m["items"]))):
            idx += 1
            if idx % job["of"] != job["chunk"]:
                continue
            m2 = dict(m, items=[m["items"][i] for i in perm])
            text = V.render(V.module_tokens(m2))
            acc.states += 1
            acc.nontrivial += 1
            check_text(acc, text, "top", {"kind": "module", "module": m2}, "perm", m2)
        acc.sample({"text": V.render(V.module_tokens(m))})
    acc.observe(acc.states)


def bb_modules():
    opts = {"clk": ["a", None, "OMIT", "1'b0"], "d": ["b", "w", None, "OMIT", "1'b1"], "q": ["y", None, "OMIT"]}
    for clk, d, q in itertools.product(opts["clk"], opts["d"], opts["q"]):
        pins = [[p, v] for p, v in (("clk", clk), ("d", d), ("q", q)) if v != "OMIT"]
        if not pins:
            continue
        for pperm in (pins, list(reversed(pins))):
            items = [["input", ["a", "b"]], ["output", ["y", "z"]], ["wire", ["w"]], ["gate", "and", [["U0", ["w", "a", "b"]]]],
                     ["bb", "ff", "f0", pperm], ["gate", "xor", [["U1", ["z", "a", "b"]]]]]
            if q != "y":
                items.append(["gate", "not", [["U2", ["y", "a"]]]])
            yield {"name": "top", "ports": ["a", "b", "y", "z"], "items": items}
    for o1, o2 in itertools.product(["y", None, "OMIT"], ["z", None, "OMIT"]):
        pins = [[p, v] for p, v in (("i", "a"), ("o1", o1), ("o2", o2)) if v != "OMIT"]
        items = [["input", ["a", "b"]], ["output", ["y", "z"]], ["bb", "two", "t0", pins],
                 ["bb", "ff", "f1", [["clk", "b"], ["d", "a"], ["q", None]]]]
        if o1 != "y":
            items.append(["assign", [["y", A]]])
        if o2 != "z":
            items.append(["assign", [["z", B]]])
        yield {"name": "top", "ports": ["a", "b", "y", "z"], "items": items}


def run_bb(job, acc):
    for _idx, m in space.chunk(bb_modules(), job["chunk"], job["of"]):
        text = V.render(V.module_tokens(m))
        acc.states += 1
        acc.nontrivial += 1
        check_text(acc, text, "top", {"kind": "module", "module": m}, "bb", m)
        acc.sample({"text": text})
    acc.observe(acc.states)


def layout_programs():
    m1 = {"name": "top", "ports": ["a", "b", "y", "z"],
          "items": [["input", ["a", "b"]], ["output", ["y", "z"]], ["wire", ["w", "q"]],
                    ["gate", "nand", [["U0", ["w", "a", "b", "1'b1"]]]], ["bb", "ff", "f0", [["clk", "a"], ["d", "w"], ["q", "q"]]],
                    ["assign", [["y", ("id", "q")]]], ["assign", [["z", ("c", "1'b0")]]]]}
    m2 = {"name": "top", "ports": ["a", "y"],
          "items": [["input", ["a"]], ["output", ["y"]], ["wire", ["o1"]], ["bb", "two", "t0", [["i", "a"], ["o1", "o1"], ["o2", None]]],
                    ["gate", "not", [["U0", ["y", "o1"]]]]]}
    # nets whose names END in a declaration keyword
    m3 = {"name": "top", "ports": ["d_input", "b", "q_output"],
          "items": [["input", ["d_input", "b"]], ["output", ["q_output"]], ["wire", ["w_wire"]],
                    ["gate", "and", [["U0", ["w_wire", "d_input", "b"]]]], ["gate", "not", [["U1", ["q_output", "w_wire"]]]]]}
    return [m1, m2, m3]


def ws_layouts(toks, max_dev):
    protect = {i for i in range(len(toks) - 1) if toks[i] == ")" and toks[i + 1] == ";"}
    pos = [i for i in range(len(toks) - 1) if i not in protect]
    yield {}
    for r in range(1, max_dev + 1):
        for ps in itertools.combinations(pos, r):
            choices = []
            for p in ps:
                choices.append([d for d in WS_DEV if d != V.gap_default(toks[p], toks[p + 1]) and (d != "" or V.gap_legal_none(toks[p], toks[p + 1]))])
            for combo in itertools.product(*choices):
                yield dict(zip(ps, combo))


def run_layout(job, acc):
    dev = bounds(job["tier"])["layout_dev"]
    idx = 0
    for pi, m in enumerate(layout_programs()):
        toks = V.module_tokens(m)
        for gaps in ws_layouts(toks, dev):
            idx += 1
            if idx % job["of"] != job["chunk"]:
                continue
            text = V.render(toks, gaps)
            acc.states += 1
            if gaps:
                acc.nontrivial += 1
            check_text(acc, text, "top", {"kind": "layout", "program": pi, "gaps": {str(k): v for k, v in gaps.items()}}, "layout", m)
        acc.sample({"text": V.render(toks)})
    acc.observe(acc.states)


def strip_comments(text):
    text = re.sub(r"/\*.*?\*/", " ", text, flags=re.DOTALL)
    return re.sub(r"//[^\n]*", "", text)


def satisfies_restrictions(text):
    if text.count("endmodule") != 1 or "\\" in text:
        return False
    body = text[text.index(";") + 1:]
    for st in body.split(";"):
        st = st.strip()
        if not st or st == "endmodule":
            continue
        if re.match(r"^(input|output|wire)\s", st):
            if "[" in st:
                return False
            continue
        if st.startswith("assign"):
            if not re.match(r"^assign\s+[a-zA-Z][a-zA-Z\d_]*\s*=\s*([a-zA-Z][a-zA-Z\d_]*|1'b[01])$", st):
                return False
            continue
        mm = re.match(r"^([a-zA-Z][a-zA-Z\d_]*)\s+([a-zA-Z][a-zA-Z\d_]*)\s*\((.*)\)$", st, re.DOTALL)
        if not mm:
            return False
        if mm.group(1) in ("buf", "and", "or", "xor", "not", "nand", "nor", "xnor"):
            if re.search(r"[~&|^?!]", mm.group(3)):
                return False
        elif not mm.group(3).strip().startswith("."):
            return False
    return True


def run_bundled(job, acc):
    import circuitgraph as cg

    d = os.path.join(common.REPO, "circuitgraph", "netlists")
    cap = bounds(job["tier"])["bundled_max_bytes"]
    bbs = [cg.BlackBox("ff", ["CK", "D"], ["Q"])] + cg.genus_flops + cg.dc_flops
    used = []
    for fn in sorted(os.listdir(d)):
        p = os.path.join(d, fn)
        if not fn.endswith(".v") or os.path.getsize(p) == 0 or os.path.getsize(p) > cap:
            continue
        text = strip_comments(open(p).read())
        if not satisfies_restrictions(text):
            continue
        name = re.search(r"module\s+([a-zA-Z_][\w$]*)", text).group(1)
        acc.states += 1
        acc.nontrivial += 1
        acc.transitions += 1
        used.append(fn)
        cc = {"kind": "bundled", "file": fn, "site": "bundled"}
        try:
            full = cg.io.verilog_to_circuit(text, name, blackboxes=bbs)
            fast = cg.io.verilog_to_circuit(text, name, blackboxes=bbs, fast=True)
        except Exception as e:  # noqa: BLE001
            acc.violation("bundled", f"raises:{common.exc_name(e)}", cc, repr(e)[:300])
            continue
        undriven_out = [o for o in full.outputs() if not full.fanin(o) and full.type(o) not in ("input", "0", "1")]
        if undriven_out:
            continue  # 'all declared outputs driven' is part of the documented restrictions
        if canon(full) != canon(fast):
            a, b = canon(full), canon(fast)
            d1 = [x for x in a[0] if x not in b[0]][:3] + [x for x in a[1] if x not in b[1]][:3]
            d2 = [x for x in b[0] if x not in a[0]][:3] + [x for x in b[1] if x not in a[1]][:3]
            acc.violation("bundled", "graphs-differ", cc, f"only full {d1}; only fast {d2}")
    acc.extra["bundled_files"] = used
    acc.sample({"files": used})
    acc.observe(used)


def names_modules():
    """Nets called like either parser's constant nodes, next to literal constants."""
    for nm in ("tie0", "tie1", "tie0_1", "tie"):
        for lit in ("1'b0", "1'b1"):
            for role in ("input", "wire", "implicit"):
                items = [["input", ["a"] + ([nm] if role == "input" else [])], ["output", ["y", "z"]]]
                if role == "wire":
                    items += [["wire", [nm]], ["gate", "not", [["U9", [nm, "a"]]]]]
                if role == "implicit":
                    items += [["gate", "not", [["U9", [nm, "a"]]]]]       # used without a wire declaration
                items += [["gate", "and", [["U0", ["y", nm, lit]]]], ["bb", "ff", "f0", [["clk", lit], ["d", nm], ["q", "z"]]]]
                yield {"name": "top", "ports": items[0][1] + ["y", "z"], "items": items}
    # identifier shapes the grammar accepts (leading underscore, all-underscore, capitals, digits) in every role
    for x in ("_w", "_1_", "__", "n_1_", "N9", "_"):
        base_in, base_out = [["input", ["a", "b"]]], [["output", ["y", "z"]]]
        ff = lambda inst, d: ["bb", "ff", inst, [["clk", "a"], ["d", d], ["q", "z"]]]
        roles = {
            "wire": base_in + base_out + [["wire", [x]], ["gate", "and", [["U0", [x, "a", "b"]]]], ["gate", "not", [["U1", ["y", x]]]], ["assign", [["z", ("id", x)]]]],
            "gate-instance": base_in + base_out + [["gate", "and", [[x, ["y", "a", "b"]]]], ["assign", [["z", ("id", "y")]]]],
            "assign-lhs": base_in + base_out + [["wire", [x]], ["assign", [[x, ("id", "a")]]], ["gate", "or", [["U0", ["y", x, "b"]]]], ["assign", [["z", ("id", "b")]]]],
            "bb-instance": base_in + base_out + [ff(x, "b"), ["gate", "xor", [["U0", ["y", "a", "z"]]]]],
            "bb-net": base_in + base_out + [["wire", [x]], ["gate", "nand", [["U0", [x, "a", "b"]]]], ff("f0", x), ["assign", [["y", ("id", x)]]]],
            "input": [["input", ["a", x]]] + base_out + [["gate", "and", [["U0", ["y", "a", x]]]], ["assign", [["z", ("id", x)]]]],
            "output": base_in + [["output", ["y", x]]] + [["gate", "and", [["U0", [x, "a", "b"]]]], ["assign", [["y", ("id", x)]]]],
        }
        for role, items in roles.items():
            ports = [n for it in items if it[0] in ("input", "output") for n in it[1]]
            yield {"name": "top", "ports": ports, "items": items}
        yield {"name": x, "ports": ["a", "b", "y", "z"], "items": base_in + base_out + [["gate", "and", [["U0", ["y", "a", "b"]]]], ["assign", [["z", ("id", "a")]]]]}
    # blackbox cells whose type name is a primitive's name in another case
    for bbt, pins in (("BUF", [["A", "a"], ["Y", "y"]]), ("Nand", [["A", "a"], ["B", "b"], ["Y", "y"]]), ("BUF", [["A", "b"], ["Y", None]])):
        items = [["input", ["a", "b"]], ["output", ["y", "z"]], ["bb", bbt, "u0", pins], ["gate", "nand", [["U1", ["z", "a", "b"]]]]]
        if pins[-1][1] is None:
            items.append(["gate", "buf", [["U2", ["y", "a"]]]])
        yield {"name": "top", "ports": ["a", "b", "y", "z"], "items": items}
    # a port that is both an input and an output (what the writer emits for an input node marked as output)
    for outs, extra in ((["a", "y"], []), (["y", "a"], []), (["a", "b", "y"], []), (["a"], [["wire", ["y"]]])):
        items = [["input", ["a", "b"]], ["output", outs]] + extra + [["gate", "nand", [["U0", ["y", "a", "b"]]]]]
        yield {"name": "top", "ports": ["a", "b"] + [o for o in outs if o not in ("a", "b")], "items": items}
        items = [["output", outs], ["input", ["a", "b"]]] + extra + [["gate", "nand", [["U0", ["y", "a", "b"]]]]]
        yield {"name": "top", "ports": [o for o in outs if o not in ("a", "b")] + ["a", "b"], "items": items}
    # repeated parity operands from one name family (a, a_0, a_1): the helper-buffer names of one net must not
    # run into those of another
    fam = ("a", "a_0", "a_1")
    for n1, n2 in itertools.permutations(fam, 2):
        for k1 in (2, 3, 4):
            for k2 in (2, 3, 4):
                items = [["input", list(fam)], ["output", ["y", "z"]], ["gate", "xor", [["U0", ["y"] + [n1] * k1]]],
                         ["gate", "xnor", [["U1", ["z"] + [n2] * k2]]]]
                yield {"name": "top", "ports": list(fam) + ["y", "z"], "items": items}
    # one operand listed many times in a parity gate: the helper buffers must get the same names in both parsers
    for t in ("xor", "xnor"):
        for k in range(2, 16):
            items = [["input", ["a", "b"]], ["output", ["y", "z"]], ["gate", t, [["U0", ["y"] + ["a"] * k]]],
                     ["gate", t, [["U1", ["z", "b", "a", "a", "b"]]]]]
            yield {"name": "top", "ports": ["a", "b", "y", "z"], "items": items}


def run_names(job, acc):
    for m in names_modules():
        text = V.render(V.module_tokens(m))
        acc.states += 1
        acc.nontrivial += 1
        check_text(acc, text, m["name"], {"kind": "module", "module": m}, "names", m)
        acc.sample({"text": text})
    acc.observe(acc.states)


def run_history(job, acc):
    """Sequences of parses in ONE process: the same blackbox type name bound to different pin lists from
    call to call, different module names, fast and full interleaved.  The LAST parse is judged."""
    import circuitgraph as cg

    def text_for(ins, outs, conn_pins):
        pins = [[p, {"CK": "a", "D": "b", "R": "a", "Q": "y", "QN": None}[p]] for p in conn_pins]
        m = {"name": "top", "ports": ["a", "b", "y"], "items": [["input", ["a", "b"]], ["output", ["y"]], ["bb", "ff", "f0", pins]]}
        return V.render(V.module_tokens(m)), m

    defs = [(["CK", "D", "R"], ["Q"]), (["CK", "D"], ["Q"]), (["CK", "D"], ["Q", "QN"])]
    for (i1, o1), (i2, o2) in itertools.permutations(defs, 2):
        for first_fast in (True, False):
            t1, _m1 = text_for(i1, o1, i1 + o1)
            t2, _m2 = text_for(i2, o2, i2 + o2)
            acc.states += 1
            acc.nontrivial += 1
            acc.transitions += 1
            case = {"kind": "history", "defs": [[i1, o1], [i2, o2]], "first_fast": first_fast, "site": "history"}
            try:
                cg.io.verilog_to_circuit(t1, "top", blackboxes=[cg.BlackBox("ff", i1, o1)], fast=first_fast)
                full = cg.io.verilog_to_circuit(t2, "top", blackboxes=[cg.BlackBox("ff", i2, o2)])
                fast = cg.io.verilog_to_circuit(t2, "top", blackboxes=[cg.BlackBox("ff", i2, o2)], fast=True)
            except Exception as e:  # noqa: BLE001
                acc.violation("history", f"raises-after-history:{common.exc_name(e)}", case, repr(e)[:200])
                continue
            if canon(full) != canon(fast):
                a, b = canon(full), canon(fast)
                d1 = [x for x in a[0] if x not in b[0]][:3] + [x for x in a[2] if x not in b[2]][:2]
                d2 = [x for x in b[0] if x not in a[0]][:3] + [x for x in b[2] if x not in a[2]][:2]
                acc.violation("history", "parsers-differ-after-history", case, f"only full {d1}; only fast {d2}")
            else:
                acc.outcome("agree")
    acc.sample({"defs": defs})
    acc.observe(acc.states)


def run(job):
    common.setup_paths()
    acc = Acc(job)
    {"names": run_names, "history": run_history, "space": run_space, "perm": run_perm, "bb": run_bb, "layout": run_layout, "bundled": run_bundled}[job["sub"]](job, acc)
    return acc.result()


def replay(case, job):
    common.setup_paths()
    acc = Acc(job)
    if case["kind"] == "history":
        run_history(job, acc)
        acc.violations = [v for v in acc.violations if v["case"].get("defs") == case["defs"] and v["case"].get("first_fast") == case["first_fast"]]
    elif case["kind"] == "bundled":
        run_bundled(dict(job, tier="thorough"), acc)
        acc.violations = [v for v in acc.violations if v["case"].get("file") == case["file"]]
    else:
        m = case.get("module") or layout_programs()[case["program"]]
        clean = {k: v for k, v in case.items() if k not in ("text", "site", "name", "net")}
        check_text(acc, case["text"], case.get("name", "top"), clean, case["site"], m)
    return acc.result()
