"""C02 - the Verilog parser yields the circuit the netlist denotes.

Programs are generated from mcv.vsyntax's own AST (reference grammar with Verilog precedence), printed
to text, parsed by the library and compared net by net with the AST's denotation.
Sub-spaces
  expr    : ALL concrete syntax trees with <= 2 (thorough 3) operator tokens over ~ ! & | ^ ~^ ^~ ?: ( )
            and 1-bit constants, packed 48 assigns per module; a failing module is re-run one assign at a time.
  gates   : primitive instances of the 8 types at fan-in 1..4, several instances per statement, constants
            and other gates' outputs as operands, repeated operands.
  order   : a fixed family of modules with <= 5 items in ALL item permutations (use before definition,
            repeated sub-expressions within and across statements, assignment lists).
  bb      : named-port blackbox instances with each pin connected / .p() / omitted / tied to a constant.
  ports   : every combination of {in port list} x {declared input / output / both / neither} for 2 names:
            must raise exactly when port list and declarations disagree.
  names   : user nets named like the parser's synthetic names (not_a, and_a_b, tie_0 ...).
  layout  : every inter-token gap of two programs takes its default or a deviation (none, newline, tab,
            two blanks, /* c */, // c<nl>), all placements of <= 1 (2) deviations; header closed by ');'.
  select  : two modules in one text, selected by name, and first-module inference.
"""
import itertools

from mcv import common, refsim, space
from mcv import vsyntax as V
from mcv.common import Acc

ID = "C02"
MECHANISM = ["parsing.verilog.parse_verilog_netlist", "parsing.verilog.assignment", "parsing.verilog.module",
             "parsing.verilog.module_instantiation", "io.verilog_to_circuit"]
RULE = ("case = program (module AST + layout); distinct = distinct text; non-trivial = the program has at least one "
        "operator / instance (its denotation is not the identity)")
ASSUMPTIONS = ["nested ternaries, ~~a, reduction operators and empty port lists are outside the documented subset",
               "nothing is demanded about internal node names or the number of internal nodes"]
PACK = 48
BB_DEFS = {"ff": (["clk", "d"], ["q"]), "two": (["i"], ["o1", "o2"])}


def bounds(tier):
    q = tier == "quick"
    return {"expr_ops": 2 if q else 3, "atoms": ["a", "b", "c", "1'b0", "1'b1"] if q else ["a", "b", "1'b1"],
            "layout_dev": 1 if q else 2}


def jobs(tier, seed):
    b = bounds(tier)
    n = 32 if tier == "quick" else 256
    js = [{"sub": "expr", "chunk": i, "of": n} for i in range(n)]
    js += [{"sub": "gates", "chunk": i, "of": 4} for i in range(4)]
    js += [{"sub": "order", "chunk": i, "of": 16} for i in range(16)]
    js += [{"sub": "bb", "chunk": i, "of": 4} for i in range(4)]
    js += [{"sub": "ports"}, {"sub": "names"}, {"sub": "select"}]
    m = 16 if tier == "quick" else 96
    js += [{"sub": "layout", "chunk": i, "of": m} for i in range(m)]
    js += [{"sub": "comments2", "chunk": i, "of": 16} for i in range(16)]
    js.append({"sub": "order", "chunk": 0, "of": 16, "hashseed": 1 + seed % 1000, "primary": False})
    return js


def bb_objects():
    import circuitgraph as cg

    return [cg.BlackBox(k, list(i), list(o)) for k, (i, o) in BB_DEFS.items()]


def parse(text, name, **kw):
    import circuitgraph as cg

    return cg.io.verilog_to_circuit(text, name, blackboxes=bb_objects(), **kw)


def edit_result(c):
    """Edits a caller may make to a parsed circuit (they must not leak into a later parse)."""
    g = c.graph
    gates = sorted(n for n in g.nodes if g.nodes[n].get("type") in space.FLIP)
    if gates:
        c.set_type(gates[0], space.FLIP[g.nodes[gates[0]]["type"]])
    outs = sorted(c.outputs())
    if outs:
        c.set_output(outs[-1], False)
    c.add("zz_extra", "input", output=True)
    plain = sorted(n for n in g.nodes if g.nodes[n].get("type") not in ("input", "bb_input", "bb_output") and n != "zz_extra")
    if plain:
        c.remove(plain[-1])
    for k in list(c.blackboxes)[:1]:
        c.blackboxes.pop(k)


def check_module(acc, m, text, case, site, only_nets=None):
    """Parse ``text`` and compare with the denotation of module AST ``m``.  Returns list of bad nets."""
    den = V.Denotation(m, BB_DEFS)
    acc.transitions += 1
    try:
        if case.get("history"):
            # read / edit the returned circuit in place / read the SAME text again: the second result is judged
            edit_result(parse(text, m["name"]))
        c = parse(text, m["name"])
    except Exception as e:  # noqa: BLE001
        acc.violation(site, f"parse-raises:{common.exc_name(e)}", dict(case, text=text, site=site), repr(e)[:300])
        return ["*"]
    if set(c.inputs()) != set(den.inputs):
        acc.violation(site, "wrong-inputs", dict(case, text=text, site=site), f"{sorted(c.inputs())} vs {sorted(den.inputs)}")
        return ["*"]
    if set(c.outputs()) != set(den.outputs):
        acc.violation(site, "wrong-outputs", dict(case, text=text, site=site), f"{sorted(c.outputs())} vs {sorted(den.outputs)}")
        return ["*"]
    env, fr, full, undefined = den.tables()
    # blackbox instances
    for inst, (bbt, pins) in den.insts.items():
        if inst not in c.blackboxes or c.blackboxes[inst].name != bbt:
            acc.violation(site, "blackbox-instance-missing", dict(case, text=text, site=site), inst)
            return ["*"]
        ins, outs = BB_DEFS[bbt]
        for p in ins + outs:
            pn = f"{inst}.{p}"
            if pn not in c.graph:
                acc.violation(site, "blackbox-pin-missing", dict(case, text=text, site=site), pn)
                return ["*"]
            net = pins.get(p)
            nb = set(c.graph.pred[pn]) if p in ins else set(c.graph.succ[pn])
            if net is None:
                if nb:
                    acc.violation(site, "unconnected-pin-has-edge", dict(case, text=text, site=site), f"{pn} ~ {sorted(nb)}")
                    return ["*"]
            elif not net.startswith("1'") and nb != {net}:
                acc.violation(site, "pin-attached-to-wrong-net", dict(case, text=text, site=site), f"{pn} ~ {sorted(nb)}, expected {net}")
                return ["*"]
    if set(c.blackboxes) != set(den.insts):
        acc.violation(site, "unexpected-blackbox-instances", dict(case, text=text, site=site), sorted(c.blackboxes))
        return ["*"]
    assign, _ = refsim.free_assign(fr)
    for n in c.graph.nodes:
        if c.graph.nodes[n].get("type") == "bb_input" and not c.graph.pred[n]:
            assign[n] = (0, 0)
    try:
        val = refsim.evaluate(c.graph, assign, full)
    except (refsim.RefError, KeyError) as e:
        acc.violation(site, "result-unevaluable", dict(case, text=text, site=site), repr(e))
        return ["*"]
    bad = []
    nets = only_nets if only_nets is not None else sorted(set(den.inputs) | set(den.outputs) | set(den.wires) | set(den.defs))
    for net in nets:
        if net in undefined or net not in env:
            continue
        if net not in val:
            bad.append(net)
            continue
        if val[net][1] or val[net][0] != env[net]:
            bad.append(net)
    for inst, (bbt, pins) in den.insts.items():
        for p in BB_DEFS[bbt][0]:
            net = pins.get(p)
            if net is not None:
                want = (full if net in V.CONST1 else 0) if net.startswith("1'") else env.get(net)
                if want is not None and val[f"{inst}.{p}"][0] != want:
                    bad.append(f"{inst}.{p}")
    return bad


def report(acc, site, case, text, bad, flags=None):
    cc = dict(case, text=text, nets=bad[:4], site=site)
    if flags:
        cc["flags"] = flags
    acc.violation(site, "net-function-wrong", cc, f"nets {bad[:4]} do not compute what the text denotes")


# --- expr -----------------------------------------------------------------------------------------------------------


def expr_space(tier):
    b = bounds(tier)
    atoms = [("c", a) if a.startswith("1'") else ("id", a) for a in b["atoms"]]
    for n in range(0, b["expr_ops"] + 1):
        for e in V.exprs(atoms, n):
            yield e
    if tier == "quick":
        # the h spelling of constants and a slice of 3-operator trees over two atoms
        for e in V.exprs([("id", "a"), ("c", "1'h0"), ("c", "1'h1")], 1):
            yield e


def expr_module(es, ins=("a", "b", "c")):
    outs = [f"w{i}" for i in range(len(es))]
    return {"name": "top", "ports": list(ins) + outs,
            "items": [["input", list(ins)], ["output", outs]] + [["assign", [[o, e]]] for o, e in zip(outs, es)]}


def shape_flags(e):
    """Structural flags used by known-finding predicates."""
    fl = set()

    def walk(x):
        if x[0] in ("xor", "xnor"):
            l, r = (x[1], x[2]) if x[0] == "xor" else (x[2], x[3])
            if V.expr_tokens(strip_par(l)) == V.expr_tokens(strip_par(r)):
                fl.add("parity-same-operand-twice")
        for y in x[1:]:
            if isinstance(y, tuple):
                walk(y)

    walk(e)
    return sorted(fl)


def strip_par(e):
    while e[0] == "par":
        e = e[1]
    return e


def run_expr(job, acc):
    batch = []
    nflush = [0]

    def flush():
        if not batch:
            return
        m = expr_module(batch)
        text = V.render(V.module_tokens(m))
        bad = check_module(acc, m, text, {"kind": "expr", "exprs": list(batch)}, "expr")
        if bad:
            # minimise: one assign per module
            for e in batch:
                m1 = expr_module([e])
                t1 = V.render(V.module_tokens(m1))
                b1 = check_module(acc, m1, t1, {"kind": "expr", "exprs": [e]}, "expr")
                if b1 and b1 != ["*"]:
                    report(acc, "expr", {"kind": "expr", "exprs": [e]}, t1, b1, shape_flags(e))
            single_bad = any(v["case"].get("exprs") and len(v["case"]["exprs"]) == 1 for v in acc.violations)
            if bad != ["*"] and not single_bad:
                report(acc, "expr", {"kind": "expr", "exprs": list(batch)}, text, bad, ["only-in-combination"])
        elif nflush[0] % 3 == 0:
            # the same module with no white space wherever the language allows none (a^b, a&~b, y=a|b;)
            toks = V.module_tokens(m)
            dense = V.render(toks, {i: "" for i in range(len(toks) - 1)})
            dc = {"kind": "expr", "exprs": list(batch), "dense": True}
            db = check_module(acc, m, dense, dc, "expr")
            if db and db != ["*"]:
                report(acc, "expr", dc, dense, db, ["dense-layout"])
        nflush[0] += 1
        batch.clear()

    for _idx, e in space.chunk(expr_space(job["tier"]), job["chunk"], job["of"]):
        acc.states += 1
        if e[0] not in ("id", "c"):
            acc.nontrivial += 1
        batch.append(e)
        if len(batch) >= PACK:
            flush()
        if acc.states % 5000 == 1:
            acc.sample({"expr": " ".join(V.expr_tokens(e))})
    flush()
    acc.observe(acc.states)


# --- gates ----------------------------------------------------------------------------------------------------------


def gate_modules():
    types = ["buf", "not", "and", "nand", "or", "nor", "xor", "xnor"]
    for t in types:
        arities = [1] if t in ("buf", "not") else [1, 2, 3, 4]
        for k in arities:
            pool = ["a", "b", "c", "1'b0", "1'b1", "m"]
            for ops in itertools.product(pool[: 3 + (2 if k <= 2 else 0) + (1 if k <= 2 else 0)], repeat=k):
                if len(ops) > 2 and len(set(ops)) < len(ops) and ops[0] != ops[-1]:
                    continue
                items = [["input", ["a", "b", "c"]], ["output", ["y", "z"]], ["wire", ["m"]],
                         ["gate", "and", [["gm", ["m", "a", "b"]]]],
                         ["gate", t, [["g1", ["y"] + list(ops)], ["g2", ["z", "y"] + list(ops[1:])]]]]
                yield {"name": "top", "ports": ["a", "b", "c", "y", "z"], "items": items}


def run_gates(job, acc):
    for _idx, m in space.chunk(gate_modules(), job["chunk"], job["of"]):
        acc.states += 1
        acc.nontrivial += 1
        text = V.render(V.module_tokens(m))
        case = {"kind": "module", "module": m}
        bad = check_module(acc, m, text, case, "gates")
        if bad and bad != ["*"]:
            ops = m["items"][-1][2][0][1][1:]
            flags = ["parity-same-operand-twice"] if m["items"][-1][1] in ("xor", "xnor") and len(set(ops)) < len(ops) else []
            ops2 = m["items"][-1][2][1][1][1:]
            if m["items"][-1][1] in ("xor", "xnor") and len(set(ops2)) < len(ops2):
                flags = ["parity-same-operand-twice"]
            report(acc, "gates", case, text, bad, flags)
        elif not bad and (_idx // job["of"]) % 5 == 0:
            hc = dict(case, history=True)
            hb = check_module(acc, m, text, hc, "gates")
            if hb and hb != ["*"]:
                report(acc, "gates", hc, text, hb, ["after-read-edit-read"])
        acc.sample({"text": text})
    acc.observe(acc.states)


# --- order ----------------------------------------------------------------------------------------------------------


def E(s):
    """Tiny helper to write expressions: nested tuples already."""
    return s


A, B, C = ("id", "a"), ("id", "b"), ("id", "c")


def order_family():
    W = lambda n: ("id", n)
    fam = []
    # use before definition, chains of assigns and gates
    fam.append([["input", ["a", "b"]], ["output", ["y"]], ["wire", ["w"]], ["assign", [["y", ("not", "~", W("w"))]]],
                ["assign", [["w", ("and", A, B)]]]])
    fam.append([["input", ["a", "b"]], ["output", ["y"]], ["wire", ["w"]], ["gate", "nor", [["g1", ["y", "w", "a"]]]],
                ["assign", [["w", ("xor", A, B)]]]])
    fam.append([["input", ["a", "b"]], ["output", ["y", "z"]], ["assign", [["y", ("or", ("and", A, B), ("and", A, B))]]],
                ["assign", [["z", ("and", A, B)]]]])
    fam.append([["input", ["a", "b"]], ["output", ["y", "z"]], ["assign", [["y", ("and", A, B)], ["z", ("xor", ("and", A, B), B)]]]])
    fam.append([["input", ["a", "b"]], ["output", ["y"]], ["wire", ["w", "v"]], ["assign", [["w", A]]], ["assign", [["v", W("w")]]],
                ["assign", [["y", ("xnor", "~^", W("v"), B)]]]])
    fam.append([["input", ["a", "b"]], ["output", ["y", "z"]], ["assign", [["y", ("tern", A, B, ("not", "!", B))]]],
                ["assign", [["z", ("tern", A, B, ("not", "!", B))]]]])
    fam.append([["input", ["a"]], ["output", ["y", "z"]], ["assign", [["y", ("not", "~", A)]]], ["assign", [["z", ("not", "~", A)]]]])
    fam.append([["input", ["a", "b"]], ["output", ["y"]], ["wire", ["q"]], ["bb", "ff", "f0", [["clk", "a"], ["d", "y"], ["q", "q"]]],
                ["assign", [["y", ("xor", W("q"), B)]]]])
    fam.append([["input", ["a", "b"]], ["output", ["y", "q"]], ["bb", "ff", "f0", [["clk", "a"], ["d", "b"], ["q", "q"]]],
                ["gate", "and", [["g", ["y", "q", "b"]]]]])
    fam.append([["input", ["a", "b"]], ["output", ["y"]], ["wire", ["w"]], ["gate", "buf", [["g1", ["w", "a"]], ["g2", ["y", "w"]]]]])
    fam.append([["input", ["a", "b"]], ["output", ["y"]], ["wire", ["w", "v"]], ["gate", "xor", [["g1", ["y", "w", "v"]]]],
                ["gate", "not", [["g2", ["w", "a"]]]], ["assign", [["v", ("or", W("w"), B)]]]])
    fam.append([["input", ["a"]], ["input", ["b"]], ["output", ["y"]], ["output", ["z"]], ["assign", [["y", ("c", "1'b1")], ["z", ("and", A, ("c", "1'b0"))]]]])
    fam.append([["input", ["a", "b"]], ["output", ["y", "z"]], ["wire", ["w"]], ["assign", [["w", ("and", A, B)]]], ["assign", [["y", W("w")]]],
                ["assign", [["z", ("and", A, B)]]]])
    fam.append([["input", ["a", "b"]], ["output", ["y", "z"]], ["assign", [["y", ("and", A, B)]]], ["assign", [["z", W("y")]]]])
    fam.append([["input", ["a", "b"]], ["output", ["y"]], ["wire", ["w1", "w2"]], ["assign", [["w1", ("and", A, B)]]],
                ["assign", [["w2", ("and", A, B)]]], ["assign", [["y", ("xor", W("w1"), W("w2"))]]]])
    fam.append([["input", ["a", "b"]], ["output", ["y", "z"]], ["wire", ["o1", "o2"]], ["bb", "two", "t0", [["i", "a"], ["o1", "o1"], ["o2", "o2"]]],
                ["assign", [["y", ("and", W("o1"), B)]]], ["assign", [["z", ("or", W("o2"), W("o1"))]]]])
    for items in fam:
        ports = []
        for it in items:
            if it[0] in ("input", "output"):
                ports += it[1]
        yield {"name": "top", "ports": ports, "items": items}


def run_order(job, acc):
    idx = 0
    for m in order_family():
        n = len(m["items"])
        for perm in itertools.permutations(range(n)):
            idx += 1
            if idx % job["of"] != job["chunk"]:
                continue
            m2 = dict(m, items=[m["items"][i] for i in perm])
            text = V.render(V.module_tokens(m2))
            acc.states += 1
            acc.nontrivial += 1
            case = {"kind": "module", "module": m2}
            bad = check_module(acc, m2, text, case, "order")
            if bad and bad != ["*"]:
                report(acc, "order", case, text, bad)
            elif not bad and idx % 7 == 0:
                hc = dict(case, history=True)
                hb = check_module(acc, m2, text, hc, "order")
                if hb and hb != ["*"]:
                    report(acc, "order", hc, text, hb, ["after-read-edit-read"])
        acc.sample({"text": V.render(V.module_tokens(m))})
    acc.observe(acc.states)


# --- blackboxes ---------------------------------------------------------------------------------------------------


def bb_modules():
    opts = {"clk": ["a", None, "OMIT", "1'b0"], "d": ["b", "w", None, "OMIT", "1'b1"], "q": ["y", None, "OMIT"]}
    for clk, d, q in itertools.product(opts["clk"], opts["d"], opts["q"]):
        pins = [[p, v] for p, v in (("clk", clk), ("d", d), ("q", q)) if v != "OMIT"]
        if not pins:
            continue
        for pperm in (pins, list(reversed(pins))):
            items = [["input", ["a", "b"]], ["output", ["y", "z"]], ["wire", ["w"]], ["assign", [["w", ("and", A, B)]]],
                     ["bb", "ff", "f0", pperm], ["assign", [["z", ("xor", A, B)]]]]
            if q != "y":
                items.append(["assign", [["y", ("not", "~", A)]]])
            yield {"name": "top", "ports": ["a", "b", "y", "z"], "items": items}
    # two instances, two-output box
    for o1, o2 in itertools.product(["y", None, "OMIT"], ["z", None, "OMIT"]):
        pins = [[p, v] for p, v in (("i", "a"), ("o1", o1), ("o2", o2)) if v != "OMIT"]
        items = [["input", ["a", "b"]], ["output", ["y", "z"]], ["bb", "two", "t0", pins],
                 ["bb", "ff", "f1", [["clk", "b"], ["d", "a"], ["q", None]]]]
        if o1 != "y":
            items.append(["assign", [["y", A]]])
        if o2 != "z":
            items.append(["assign", [["z", B]]])
        yield {"name": "top", "ports": ["a", "b", "y", "z"], "items": items}


def run_bb(job, acc):
    for _idx, m in space.chunk(bb_modules(), job["chunk"], job["of"]):
        text = V.render(V.module_tokens(m))
        acc.states += 1
        acc.nontrivial += 1
        case = {"kind": "module", "module": m}
        bad = check_module(acc, m, text, case, "bb")
        if bad and bad != ["*"]:
            report(acc, "bb", case, text, bad)
        elif not bad:
            hc = dict(case, history=True)
            hb = check_module(acc, m, text, hc, "bb")
            if hb and hb != ["*"]:
                report(acc, "bb", hc, text, hb, ["after-read-edit-read"])
        acc.sample({"text": text})
    acc.observe(acc.states)


# --- ports ------------------------------------------------------------------------------------------------------------


def run_ports(job, acc):
    import circuitgraph as cg

    decls = ["input", "output", "both", "neither"]
    for inport in itertools.product((True, False), repeat=2):
        for dk in itertools.product(decls, repeat=2):
            names = ["p", "r"]
            ports = ["a", "y"] + [n for n, ip in zip(names, inport) if ip]
            items = [["input", ["a"]], ["output", ["y"]], ["assign", [["y", A]]]]
            consistent = True
            for n, ip, d in zip(names, inport, dk):
                if d in ("input", "both"):
                    items.append(["input", [n]])
                if d in ("output", "both"):
                    items.append(["output", [n]])
                    if d == "output":
                        items.append(["assign", [[n, A]]])
                declared = d != "neither"
                if ip != declared:
                    consistent = False
            if any(d == "both" for d in dk):
                continue  # a net declared both input and output is outside the subset
            m = {"name": "top", "ports": ports, "items": items}
            text = V.render(V.module_tokens(m))
            case = {"kind": "ports", "module": m}
            acc.states += 1
            acc.transitions += 1
            if not consistent:
                acc.nontrivial += 1
            try:
                parse(text, "top")
                raised = None
            except Exception as e:  # noqa: BLE001
                raised = e
            acc.outcome("rejected" if raised else "accepted")
            if not consistent and raised is None:
                acc.violation("ports", "port-mismatch-accepted", dict(case, text=text, site="ports"), "port list and declarations disagree but the module was accepted")
            elif consistent and raised is not None:
                acc.violation("ports", f"consistent-ports-rejected:{common.exc_name(raised)}", dict(case, text=text, site="ports"), repr(raised)[:200])
            elif raised is not None and not isinstance(raised, (cg.parsing.VerilogParsingError, ValueError)):
                acc.violation("ports", f"port-mismatch-wrong-exception:{common.exc_name(raised)}", dict(case, text=text, site="ports"), repr(raised)[:200])
    acc.sample({"text": text})
    acc.observe(acc.states)


# --- synthetic-looking names --------------------------------------------------------------------------------------------


def name_modules():
    W = lambda n: ("id", n)
    out = []
    for syn, e in (("and_a_b", ("and", A, B)), ("not_a", ("not", "~", A)), ("xor_a_b", ("xor", A, B)), ("or_a_b", ("or", A, B)),
                   ("xnor_a_b", ("xnor", "~^", A, B))):
        # a user wire with the synthetic name, defined differently, next to the expression that generates that name
        for first in (0, 1):
            its = [["assign", [["y", ("or", ("par", e), C)]]], ["assign", [[syn, ("xor", C, B)]]]]
            if first:
                its.reverse()
            out.append((["input", ["a", "b", "c"]], ["output", ["y", "z"]], ["wire", [syn]], its, ["assign", [["z", W(syn)]]]))
        # a user INPUT with the synthetic name
        out.append((["input", ["a", "b", "c", syn]], ["output", ["y", "z"]], None, [["assign", [["y", ("or", ("par", e), C)]]]],
                    ["assign", [["z", ("and", W(syn), C)]]]))
    for tie, k in (("tie_0", "1'b0"), ("tie_1", "1'b1")):
        out.append((["input", ["a", "b", "c", tie]], ["output", ["y", "z"]], None, [["assign", [["y", ("and", A, ("c", k))]]]],
                    ["assign", [["z", ("xor", W(tie), A)]]]))
        out.append((["input", ["a", "b", "c"]], ["output", ["y", "z"]], ["wire", [tie]], [["assign", [[tie, ("and", A, B)]]], ["assign", [["y", ("or", A, ("c", k))]]]],
                    ["assign", [["z", W(tie)]]]))
    for ins, outs, wires, mid, last in out:
        items = [ins, outs] + ([wires] if wires else []) + mid + [last]
        yield {"name": "top", "ports": ins[1] + outs[1], "items": items}
    # what the library's own writer emits for constants: a wire called tie_0 / tie_1 assigned ITS constant
    for tie, k in (("tie_0", "1'b0"), ("tie_1", "1'b1")):
        yield {"name": "top", "ports": ["a", "y", "z"],
               "items": [["input", ["a"]], ["output", ["y", "z"]], ["wire", [tie]], ["assign", [[tie, ("c", k)]]],
                         ["assign", [["y", ("and", A, W(tie))]]], ["assign", [["z", ("or", W(tie), A)]]]]}
        yield {"name": "top", "ports": ["a", "y", "z"],
               "items": [["input", ["a"]], ["output", ["y", "z"]], ["wire", [tie]],
                         ["assign", [["y", ("xor", A, W(tie))]]], ["assign", [[tie, ("c", k)]]], ["gate", "nor", [["U0", ["z", tie, "a"]]]]]}


def run_names(job, acc):
    for m in name_modules():
        text = V.render(V.module_tokens(m))
        acc.states += 1
        acc.nontrivial += 1
        case = {"kind": "module", "module": m}
        bad = check_module(acc, m, text, case, "names")
        if bad == ["*"]:
            # re-tag: a crash on such names is the same finding family
            for v in acc.violations:
                if v["case"].get("text") == text:
                    v["case"]["flags"] = ["synthetic-name-capture"]
        elif bad:
            report(acc, "names", case, text, bad, ["synthetic-name-capture"])
        acc.sample({"text": text})
    acc.observe(acc.states)


# --- layout -------------------------------------------------------------------------------------------------------------


def layout_programs():
    W = lambda n: ("id", n)
    m1 = {"name": "top", "ports": ["a", "b", "y"],
          "items": [["input", ["a", "b"]], ["output", ["y"]], ["wire", ["w"]],
                    ["assign", [["w", ("xnor", "~^", A, ("not", "~", ("par", ("or", A, B))))]]],
                    ["gate", "nand", [["g1", ["y", "w", "a"]]]]]}
    m2 = {"name": "top", "ports": ["a", "\\b[0]", "y", "z"],
          "items": [["input", ["a", "\\b[0]"]], ["output", ["y", "z"]], ["wire", ["q"]],
                    ["bb", "ff", "f0", [["clk", "a"], ["d", "\\b[0]"], ["q", "q"]]],
                    ["assign", [["y", ("tern", W("q"), A, ("c", "1'b1"))], ["z", ("and", ("not", "!", W("q")), W("\\b[0]"))]]]]}
    m3 = {"name": "top", "ports": ["a", "b", "c", "y", "z"],
          "items": [["input", ["a", "b", "c"]], ["output", ["y", "z"]],
                    ["assign", [["y", ("or", ("xor", A, ("and", B, C)), ("xnor", "~^", A, B))]]],
                    ["assign", [["z", ("tern", ("xor", A, B), ("and", B, ("not", "~", C)), ("xnor", "^~", C, A))]]]]}
    return [m1, m2, m3]


def run_layout(job, acc):
    dev = bounds(job["tier"])["layout_dev"]
    idx = 0
    for pi, m in enumerate(layout_programs()):
        toks = V.module_tokens(m)
        protect = V.header_close_positions(toks)
        dense_all = {i: "" for i in range(len(toks) - 1) if i not in protect}
        for gaps in itertools.chain(V.layouts(toks, dev, protect), [dense_all]):
            idx += 1
            if idx % job["of"] != job["chunk"]:
                continue
            text = V.render(toks, gaps)
            acc.states += 1
            if gaps:
                acc.nontrivial += 1
            case = {"kind": "layout", "program": pi, "gaps": {str(k): v for k, v in gaps.items()}}
            bad = check_module(acc, m, text, case, "layout")
            if bad and bad != ["*"]:
                report(acc, "layout", case, text, bad)
        acc.sample({"text": V.render(toks)})
    acc.observe(acc.states)


def run_comments2(job, acc):
    """Every pair of gaps of program 1 holds a comment (block/block, block/line, line/line): statements
    between two comments must survive."""
    m = layout_programs()[0]
    toks = V.module_tokens(m)
    protect = V.header_close_positions(toks)
    pos = [i for i in range(len(toks) - 1) if i not in protect]
    idx = 0
    for p1, p2 in itertools.combinations(pos, 2):
        for c1, c2 in ((" /* c */ ", " /* d */ "), (" // c\n", " /* d */ "),
                       # a comment whose text holds the OTHER kind's opener (a URL, a commented-out comment): inside a
                       # block comment '//' means nothing, inside a line comment '/*' means nothing
                       (" /* see u://v */ ", " /* d */ "), (" // c /* e\n", " /* d */ ")):
            idx += 1
            if idx % job["of"] != job["chunk"]:
                continue
            gaps = {p1: c1, p2: c2}
            text = V.render(toks, gaps)
            acc.states += 1
            acc.nontrivial += 1
            case = {"kind": "layout", "program": 0, "gaps": {str(k): v for k, v in gaps.items()}}
            bad = check_module(acc, m, text, case, "comments2")
            if bad and bad != ["*"]:
                report(acc, "comments2", case, text, bad)
    acc.sample({"text": V.render(toks, {pos[3]: " /* c */ ", pos[-3]: " /* d */ "})})
    acc.observe(acc.states)


# --- module selection -----------------------------------------------------------------------------------------------------


def run_select(job, acc):
    ma = {"name": "alpha", "ports": ["a", "y"], "items": [["input", ["a"]], ["output", ["y"]], ["assign", [["y", ("not", "~", A)]]]]}
    mb = {"name": "beta", "ports": ["a", "b", "y"], "items": [["input", ["a", "b"]], ["output", ["y"]], ["assign", [["y", ("and", A, B)]]]]}
    mc = {"name": "alphabet", "ports": ["a", "y"], "items": [["input", ["a"]], ["output", ["y"]], ["assign", [["y", A]]]]}
    ta, tb, tc = (V.render(V.module_tokens(x)) for x in (ma, mb, mc))
    combos = [(ta + "\n" + tb, ma, "alpha"), (ta + "\n" + tb, mb, "beta"), (tb + ta, ma, "alpha"), (tc + ta, ma, "alpha"), (tc + ta, mc, "alphabet"),
              (ta + tc, mc, "alphabet")]
    for text, m, name in combos:
        acc.states += 1
        acc.nontrivial += 1
        case = {"kind": "select", "name": name}
        bad = check_module(acc, m, text, case, "select")
        if bad and bad != ["*"]:
            report(acc, "select", case, text, bad)
    # first-module inference and unknown module
    acc.transitions += 2
    try:
        c = parse(ta + tb, "nothere", infer_module_name=True)
        if set(c.inputs()) != {"a"} or c.name != "alpha":
            acc.violation("select", "inference-picked-wrong-module", {"kind": "select", "name": "infer", "text": ta + tb}, c.name)
    except Exception as e:  # noqa: BLE001
        acc.violation("select", f"inference-raises:{common.exc_name(e)}", {"kind": "select", "name": "infer", "text": ta + tb}, repr(e))
    try:
        parse(ta + tb, "nothere")
        acc.violation("select", "unknown-module-accepted", {"kind": "select", "name": "unknown", "text": ta + tb}, "")
    except ValueError:
        pass
    except Exception as e:  # noqa: BLE001
        acc.violation("select", f"unknown-module-wrong-exception:{common.exc_name(e)}", {"kind": "select", "name": "unknown", "text": ta + tb}, repr(e))
    acc.sample({"text": ta + tb})
    acc.observe(acc.states)


def run(job):
    common.setup_paths()
    acc = Acc(job)
    {"expr": run_expr, "gates": run_gates, "order": run_order, "bb": run_bb, "ports": run_ports, "names": run_names,
     "layout": run_layout, "select": run_select, "comments2": run_comments2}[job["sub"]](job, acc)
    return acc.result()


def replay(case, job):
    common.setup_paths()
    acc = Acc(job)
    k = case["kind"]
    clean = {kk: v for kk, v in case.items() if kk not in ("text", "nets", "flags", "site")}
    site = case.get("site")
    if k == "expr":
        es = [V.tuple_expr(e) for e in case["exprs"]]
        m = expr_module(es)
        toks = V.module_tokens(m)
        text = V.render(toks, {i: "" for i in range(len(toks) - 1)}) if case.get("dense") else V.render(toks)
        bad = check_module(acc, m, text, clean, "expr")
        if bad and bad != ["*"]:
            fl = shape_flags(es[0]) if len(es) == 1 else ["only-in-combination"]
            report(acc, "expr", clean, text, bad, fl)
    elif k in ("module", "layout", "select", "ports"):
        # the text is authoritative for replay
        text = case["text"]
        if k == "ports":
            job2 = dict(job)
            run_ports(job2, acc)
            acc.violations = [v for v in acc.violations if v["case"].get("text") == text]
        else:
            m = case.get("module") or (layout_programs()[case["program"]] if k == "layout" else None)
            if m is None:
                m = {"alpha": None}.get(case.get("name"))
            if m is None and k == "select":
                run_select(job, acc)
            else:
                st = case.get("site", "layout" if k == "layout" else "module")
                bad = check_module(acc, m, text, clean, st)
                if bad and bad != ["*"]:
                    report(acc, st, clean, text, bad, case.get("flags"))
    return acc.result()
