"""C20 - lint decides well-formedness, and library outputs pass it.

Part 1 (sub 'rules'): all graphs with <= 2 nodes (thorough: 3 nodes over one
representative type per rule class) built directly on Circuit.graph: every
type in supported_types + an unsupported string + no 'type' key, every edge set
including self-loops, every output marking, plain and dotted names, four
blackbox registries, all 16 flag combinations.  Oracle: an independent
implementation of the documented rule list returning MUST-RAISE / MUST-PASS /
UNSPECIFIED.
Part 2 (sub 'outputs'): lint on the result of every generator / parser /
composition / function-preserving transform over a lint-clean corpus.
"""
import itertools

from mcv import common, space
from mcv.common import Acc

ID = "C20"
MECHANISM = ["utils.lint"]
RULE = ("rules: case = (nodes with type/output/name, edge set, registry), each under all 16 flag sets; "
        "distinct = distinct tuple; non-trivial = at least one documented rule is violated under some flag set. "
        "outputs: case = (library function, argument circuit)")
ASSUMPTIONS = [
    "UNSPECIFIED (either outcome accepted): unloaded=True on a bb_input pin (it can never have a load)",
    "undriven=True covers every node kind that needs a driver: buf, not, bb_input and the multi-input gates "
    "(lint's docstring: 'Fail on undriven node')",
]

SUPPORTED = ["buf", "and", "or", "xor", "not", "nand", "nor", "xnor", "0", "1", "x", "input", "bb_input", "bb_output"]
ZERO_IN = ("input", "0", "1", "x", "bb_output")
ONE_IN = ("buf", "not", "bb_input")
GATE1 = ("buf", "not")
MULTI = ("and", "nand", "or", "nor", "xor", "xnor")
FLAGS = list(itertools.product([False, True], repeat=4))  # fail_fast, unloaded, undriven, single_input_gates


def bounds(tier):
    return {"rule_nodes": 2 if tier == "quick" else 3,
            "types_2": SUPPORTED + ["bogus", None],
            "types_3": ["input", "x", "bb_output", "bb_input", "buf", "and", "bogus", None]}


def jobs(tier, seed):
    js = [{"sub": "rules", "n": 1, "chunk": 0, "of": 1}]
    k = 32
    js += [{"sub": "rules", "n": 2, "chunk": i, "of": k} for i in range(k)]
    if tier == "thorough":
        js += [{"sub": "rules", "n": 3, "chunk": i, "of": 128} for i in range(128)]
    js += [{"sub": "outputs", "chunk": i, "of": 8} for i in range(8)]
    js.append({"sub": "rules", "n": 2, "chunk": 3, "of": k, "hashseed": 1 + seed % 1000, "primary": False})
    return js


# --- the documented rules, independently -------------------------------------------------


def reference(nodes, edges, registry, unloaded, undriven, single):
    """nodes: {name: (type or None, is_output)}; edges: set of (u, v);
    registry: {inst: (inputs, outputs)}.  Returns 'raise' | 'pass' | 'unspec'."""
    must = False
    unspec = False
    fanin = {n: [u for (u, v) in edges if v == n] for n in nodes}
    fanout = {n: [v for (u, v) in edges if u == n] for n in nodes}
    for n, (t, out) in nodes.items():
        if t is None or t not in SUPPORTED:
            must = True
            t_ok = False
        else:
            t_ok = True
        if "." in n and n.split(".")[0] not in registry:
            must = True
        if not t_ok:
            # rules below are per type; a node without a supported type already fails
            if unloaded and not out and not fanout[n]:
                must = True
            continue
        if t in ZERO_IN and fanin[n]:
            must = True
        if t in ONE_IN and len(fanin[n]) > 1:
            must = True
        if t == "bb_output":
            if len(fanout[n]) > 1:
                must = True
            for l in fanout[n]:
                if nodes[l][0] != "buf":
                    must = True
        if undriven and not fanin[n]:
            if t in GATE1 + MULTI + ("bb_input",):
                must = True
        if single and t in MULTI and len(fanin[n]) < 2:
            must = True
        if unloaded and not out and not fanout[n]:
            if t == "bb_input":
                unspec = True
            else:
                must = True
    for inst, (ins, outs) in registry.items():
        for p in ins:
            pn = f"{inst}.{p}"
            if pn not in nodes or nodes[pn][0] != "bb_input":
                must = True
        for p in outs:
            pn = f"{inst}.{p}"
            if pn not in nodes or nodes[pn][0] != "bb_output":
                must = True
    if must:
        return "raise"
    return "unspec" if unspec else "pass"


NAMES = [["a", "u.p"], ["b", "u.q", "v.r"], ["c", "u.s"]]
REGS = [
    {},
    {"u": (["p"], ["q"])},
    {"u": (["p", "zz"], ["q"])},
    {"u": (["q"], ["p"])},
]


def graphs(n, types):
    names_opts = list(itertools.product(*NAMES[:n]))
    pairs = [(i, j) for i in range(n) for j in range(n)]
    if n == 3:
        # 3 nodes: no self-loops, at most 4 edges, to keep the space finite and small
        pairs = [(i, j) for i in range(n) for j in range(n) if i != j]
    for ts in itertools.product(types, repeat=n):
        for m in range(1 << len(pairs)):
            es = [p for b, p in enumerate(pairs) if (m >> b) & 1]
            if n == 3 and len(es) > 3:
                continue
            for outs in itertools.product([False, True, None] if n < 3 else [False, True], repeat=n):
                for names in names_opts:
                    for ri, reg in enumerate(REGS):
                        yield ts, es, outs, names, ri


def build(ts, es, outs, names, ri):
    import circuitgraph as cg

    c = cg.Circuit(name="top")
    for nm, t, o in zip(names, ts, outs):
        attrs = {}
        if t is not None:
            attrs["type"] = t
        if o is not None:
            attrs["output"] = o
        c.graph.add_node(nm, **attrs)
    for i, j in es:
        c.graph.add_edge(names[i], names[j])
    for inst, (ins, ou) in REGS[ri].items():
        c.blackboxes[inst] = cg.BlackBox("bbx", list(ins), list(ou))
    return c


def check_rules_case(acc, ts, es, outs, names, ri, only_flags=None, retype=None):
    import circuitgraph as cg

    c = build(ts, es, outs, names, ri)
    nodes = {nm: (t, bool(o)) for nm, t, o in zip(names, ts, outs)}
    edges = {(names[i], names[j]) for i, j in es}
    nontriv = False
    for ff, unl, und, sing in (only_flags or FLAGS):
        want = reference(nodes, edges, REGS[ri], unl, und, sing)
        acc.transitions += 1
        try:
            cg.lint(c, fail_fast=ff, unloaded=unl, undriven=und, single_input_gates=sing)
            got = "pass"
        except ValueError:
            got = "raise"
        except Exception as e:  # noqa: BLE001
            got = "exc:" + common.exc_name(e)
        acc.outcome(got)
        if want == "raise":
            nontriv = True
        bad = None
        if got.startswith("exc:"):
            bad = f"wrong-exception:{got[4:]}"
        elif want == "raise" and got == "pass":
            bad = "accepts-illformed"
        elif want == "pass" and got == "raise":
            bad = "rejects-wellformed"
        if bad:
            case = {"kind": "rules", "types": list(ts), "edges": [list(e) for e in es], "outs": list(outs),
                    "names": list(names), "reg": ri, "flags": [ff, unl, und, sing]}
            acc.violation("rules", bad, case, f"lint -> {got}, documented rules -> {want}")
    if retype is not None:
        # lint / edit one node's type in place (node and edge counts unchanged) / lint again with the same flags
        i, t2 = retype
        c.graph.nodes[names[i]]["type"] = t2
        nodes2 = dict(nodes)
        nodes2[names[i]] = (t2, nodes[names[i]][1])
        for ff, unl, und, sing in ((False, False, False, False), (True, True, True, True)):
            want = reference(nodes2, edges, REGS[ri], unl, und, sing)
            acc.transitions += 1
            try:
                cg.lint(c, fail_fast=ff, unloaded=unl, undriven=und, single_input_gates=sing)
                got = "pass"
            except ValueError:
                got = "raise"
            except Exception as e:  # noqa: BLE001
                got = "exc:" + common.exc_name(e)
            if got.startswith("exc:") or (want == "raise" and got == "pass") or (want == "pass" and got == "raise"):
                case = {"kind": "rules", "types": list(ts), "edges": [list(e) for e in es], "outs": list(outs),
                        "names": list(names), "reg": ri, "flags": [ff, unl, und, sing], "retype": [i, t2]}
                acc.violation("rules", "after-edit:" + ("accepts-illformed" if got == "pass" else "rejects-wellformed" if got == "raise" else got),
                              case, f"lint after retyping {names[i]} to {t2} -> {got}, documented rules -> {want}")
    return nontriv


def run_rules(job, acc):
    b = bounds(job["tier"])
    types = b["types_3"] if job["n"] == 3 else b["types_2"]
    h = 0
    for _idx, (ts, es, outs, names, ri) in space.chunk(graphs(job["n"], types), job["chunk"], job["of"]):
        acc.states += 1
        rt = None
        if h % 8 == 0:
            plain = [i for i, nm in enumerate(names) if "." not in nm]
            if plain:
                i = plain[(h // 8) % len(plain)]
                alts = [t for t in ("input", "buf", "and", "0") if t != ts[i]]
                rt = (i, alts[(h // 8) % len(alts)])
        if check_rules_case(acc, ts, es, outs, names, ri, retype=rt):
            acc.nontrivial += 1
        h += 1
        if h % 5000 == 1:
            acc.sample({"types": list(ts), "edges": es, "outs": list(outs), "names": list(names), "reg": ri})
    acc.observe(sorted(acc.outcomes.items()))


# --- part 2: library outputs -----------------------------------------------------------------


def corpus():
    """Lint-clean blackbox-free circuits: the (I<=2, G<=2) space with sink outputs."""
    for I in (1, 2):
        for gates in space.circuits(I, 2, max_arity=3):
            yield space.to_desc(I, gates)
    for gates in space.circuits(2, 1, max_arity=2):
        yield space.to_desc(2, gates, outputs="all")
    # feed-through ports only: every output is a primary input (a wrapper, a pass-through stage) - e.g. a miter of
    # such a circuit has nothing left to compare once the inputs are tied
    for k, gates in enumerate(space.circuits(2, 1, max_arity=2)):
        if k % 4 == 0:
            yield space.to_desc(2, gates, outputs=[0])
            yield space.to_desc(2, gates, outputs=[0, 1])


def producers():
    import circuitgraph as cg

    tx = cg.tx
    return [
        ("copy", lambda c: c.copy()),
        ("tx.relabel", lambda c: tx.relabel(c, {n: f"r_{n}" for n in c})),
        ("tx.limit_fanin", lambda c: tx.limit_fanin(c, 2)),
        ("tx.limit_fanout", lambda c: tx.limit_fanout(c, 2)),
        ("tx.ternary", lambda c: tx.ternary(c)[0]),
        ("tx.ternary(companion names taken)", _ternary_taken),
        ("tx.miter", lambda c: tx.miter(c)),
        ("tx.miter2", lambda c: tx.miter(c, c.copy())),
        ("tx.unroll", lambda c: tx.unroll(c, 2, {})[0]),
        ("tx.acyclic_unroll", lambda c: tx.acyclic_unroll(c)),
        ("tx.sensitization_transform", lambda c: tx.sensitization_transform(c, sorted(c.inputs())[0])),
        ("tx.sensitivity_transform", lambda c: tx.sensitivity_transform(c, sorted(c.outputs())[0])),
        ("tx.subcircuit-full", lambda c: tx.subcircuit(c, c.nodes())),
        ("io.verilog-roundtrip", lambda c: cg.io.verilog_to_circuit(cg.io.circuit_to_verilog(c), c.name)),
        ("io.verilog-fast-roundtrip", lambda c: cg.io.verilog_to_circuit(cg.io.circuit_to_verilog(c), c.name, fast=True)),
        ("io.bench-roundtrip", lambda c: cg.io.bench_to_circuit(cg.io.circuit_to_bench(c), c.name)),
        ("add_subcircuit-connected", _compose),
        ("add_blackbox+fill", _fill),
        ("strip_blackboxes", _strip_bb),
        ("tx.insert_registers", lambda c: tx.insert_registers(c, 1)),
        ("tx.supergates", lambda c: tx.supergates(c)),
        ("tx.supergates(super)", lambda c: tx.supergates(_single_output(c), construct_supercircuit=True)[0]),
        ("tx.sequential_unroll", lambda c: tx.sequential_unroll(_with_flop(c), 2, "d", "q")[0]),
        ("tx.sequential_unroll(opts)", lambda c: tx.sequential_unroll(_with_flop(c), 2, "d", "q", ignore_pins="clk", add_flop_outputs=True,
                                                               initial_values="0", remove_unloaded=False)[0]),
        ("tx.unroll(state)", lambda c: tx.unroll(c, 3, {sorted(c.outputs())[0]: sorted(c.inputs())[0]})[0]),
        ("tx.limit_fanin(limit_fanout)", lambda c: tx.limit_fanin(tx.limit_fanout(c, 2), 2)),
        ("add_blackbox(hierarchical pins)", _bb_hier),
        ("io.verilog-fast(h constants)", _fast_h),
        ("fill_blackbox(child with a nested blackbox)", _fill_nested),
        ("remove_unloaded(flop with dead logic)", _ru_flop),
        ("remove_unloaded(inputs=True)", _ru_plain),
        ("remove_unloaded(flop with dead logic, inputs=True)", lambda c: _ru_flop(c, True)),
        ("add_blackbox(two nets on one input pin)", lambda c: _two_drivers(c, "add_blackbox")),
        ("connect(second driver onto a pin)", lambda c: _two_drivers(c, "connect")),
        ("add(second driver onto a pin)", lambda c: _two_drivers(c, "add")),
        ("logic generators after an edited result", _generators_after_edit),
        ("io.verilog-roundtrip(open pin)", lambda c: _bb_open(c, False, False)),
        ("io.verilog-fast-roundtrip(open pin)", lambda c: _bb_open(c, True, False)),
        ("io.verilog(omitted pin)", lambda c: _bb_open(c, False, True)),
        ("io.verilog-fast(omitted pin)", lambda c: _bb_open(c, True, True)),
    ]


def _single_output(c):
    r = c.copy()
    outs = sorted(r.outputs())
    r.set_output(outs[:-1], False)
    if r.remove_unloaded():
        pass
    return r


def _with_flop(c):
    """c with one generic flop: its q feeds nothing new, its d is driven by the first output; clk is a new input."""
    import circuitgraph as cg

    r = c.copy()
    if sorted(r.outputs())[0] in r.inputs():
        raise _Skip()
    r.add("clk_net", "input")
    r.add("q_net", "buf")
    r.add("q_out", "and", fanin=["q_net", sorted(r.inputs())[0]], output=True)
    r.add_blackbox(cg.generic_flop, "ff0", {"clk": "clk_net", "d": sorted(c.outputs())[0], "q": "q_net"})
    return r


def _fast_h(c):
    """The fast parser on the writer's text with the constants respelt 1'h0 / 1'h1 (its docstring allows h)."""
    import circuitgraph as cg

    r = c.copy()
    r.add("kk0", "0")
    r.add("kk1", "1")
    r.add("kout", "xor", fanin=["kk0", "kk1", sorted(r.inputs())[0]], output=True)
    text = cg.io.circuit_to_verilog(r).replace("1'b0", "1'h0").replace("1'b1", "1'h1")
    return cg.io.verilog_to_circuit(text, r.name, fast=True)


def _fill_nested(c):
    """Fill a blackbox with a child that itself holds a blackbox whose instance name differs from its type name."""
    import circuitgraph as cg

    if c.inputs() & c.outputs():
        raise _Skip()
    child = c.copy()
    o = sorted(child.outputs())[0]
    child.add("nq", "buf")
    child.add("nq_out", "and", fanin=["nq", o], output=True)
    child.add_blackbox(cg.BlackBox("dff", ["D"], ["Q"]), "r0", {"D": o, "Q": "nq"})
    p = _bb_parent(child)
    p.fill_blackbox("u", child)
    return p


def _bb_hier(c):
    """A fully connected blackbox whose pin names look hierarchical (io.d / io.q), as flattened designs have."""
    import circuitgraph as cg

    r = c.copy()
    o = sorted(c.outputs())[0]
    r.add("hq", "buf")
    r.add("hq_out", "buf", fanin="hq", output=True)
    r.add_blackbox(cg.BlackBox("cell", ["io.d"], ["io.q"]), "u0", {"io.d": o, "io.q": "hq"})
    return r


def _ru_flop(c, inputs=False):
    """remove_unloaded on a lint-clean circuit with a flop whose second output only feeds dead logic."""
    import circuitgraph as cg

    r = c.copy()
    if sorted(r.outputs())[0] in r.inputs():
        raise _Skip()
    r.add("clk_net", "input")
    r.add("q_net", "buf")
    r.add("qn_net", "buf")
    r.add("dead1", "not", fanin="qn_net")
    r.add("dead2", "and", fanin=["dead1", sorted(r.inputs())[0]])
    r.add("q_out", "buf", fanin="q_net", output=True)
    r.add_blackbox(cg.BlackBox("FD", ["CK", "D"], ["Q", "QN"]), "r0",
                   {"CK": "clk_net", "D": sorted(c.outputs())[0], "Q": "q_net", "QN": "qn_net"})
    cg.lint(r)
    r.remove_unloaded(inputs=inputs)
    return r


def _ternary_taken(c):
    """ternary on a circuit in which the names it would give the companions (<n>_X) already belong to other nodes."""
    import circuitgraph as cg

    ins = sorted(c.inputs())
    gates = sorted(n for n in c.nodes() if c.type(n) not in ("input", "0", "1", "x"))
    if not ins or not gates:
        raise _Skip()
    ren = {gates[0]: f"{ins[0]}_X"}
    if len(gates) > 1:
        ren[gates[1]] = f"{ins[0]}_X_X"
    return cg.tx.ternary(cg.tx.relabel(c, ren))[0]


def _two_drivers(c, how):
    """Composition calls that try to put a second driver on a blackbox input pin: the call must refuse (ValueError,
    tolerated by the caller of this producer) or leave a lint-clean circuit."""
    import circuitgraph as cg

    r = c.copy()
    ins = sorted(r.inputs())
    o = sorted(r.outputs())[0]
    if o in ins:
        raise _Skip()
    r.add("q_net", "buf")
    r.add("q_out", "buf", fanin="q_net", output=True)
    bb = cg.BlackBox("FD", ["CK", "D"], ["Q"])
    if how == "add_blackbox":
        r.add_blackbox(bb, "r0", {"CK": ins[0], "D": [o, ins[0]], "Q": "q_net"})
        return r
    r.add_blackbox(bb, "r0", {"CK": ins[0], "D": o, "Q": "q_net"})
    if how == "connect":
        r.connect(ins[0], "r0.D")
    else:
        r.add("extra_drv", "not", fanin=ins[0], fanout="r0.D", output=True)
    return r


def _generators_after_edit(c):
    """A caller edits blocks it obtained from the generators, then asks for blocks again."""
    import circuitgraph as cg

    lg = cg.logic
    for blk in (lg.full_adder(), lg.half_adder(), lg.adder(2), lg.mux(2), lg.popcount(2)):
        space.scramble(blk)
    return [lg.full_adder(), lg.half_adder(), lg.adder(1), lg.adder(3, carry_in=True, carry_out=True), lg.mux(2), lg.mux(3),
            lg.popcount(2), lg.popcount(3)]


def _bb_open(c, fast, omit):
    """Write and re-read a lint-clean circuit holding a flop whose QN pin is left open (the writer prints .QN());
    with omit=True the open pin is deleted from the instance's port list altogether."""
    import re

    import circuitgraph as cg

    r = c.copy()
    if sorted(r.outputs())[0] in r.inputs():
        raise _Skip()
    bb = cg.BlackBox("FD", ["CK", "D"], ["Q", "QN"])
    r.add("clk_net", "input")
    r.add("q_net", "buf")
    r.add("q_out", "buf", fanin="q_net", output=True)
    r.add_blackbox(bb, "r0", {"CK": "clk_net", "D": sorted(c.outputs())[0], "Q": "q_net"})
    cg.lint(r)
    text = cg.io.circuit_to_verilog(r)
    if ".QN()" not in text:
        raise _Skip()
    if omit:
        text = re.sub(r",\s*\.QN\(\)", "", text)
        text = re.sub(r"\.QN\(\)\s*,\s*", "", text)
        if ".QN" in text:
            raise _Skip()
    return cg.io.verilog_to_circuit(text, r.name, blackboxes=[cg.BlackBox("FD", ["CK", "D"], ["Q", "QN"])], fast=fast)


def _ru_plain(c):
    r = c.copy()
    r.add("spare", "input")
    r.add("dead", "and", fanin=["spare", sorted(r.inputs())[0]])
    r.remove_unloaded(inputs=True)
    return r


def _compose(c):
    import circuitgraph as cg

    p = cg.Circuit(name="parent")
    conn = {}
    for i in sorted(c.inputs()):
        p.add(f"pi_{i}", "input")
        p.add(f"pg_{i}", "and", fanin=[f"pi_{i}"])
        conn[i] = f"pg_{i}"
    for o in sorted(c.outputs() - c.inputs()):
        p.add(f"po_{o}", "buf", output=True)
        conn[o] = f"po_{o}"
    p.add_subcircuit(c, "u", conn)
    for o in sorted(c.outputs() & c.inputs()):
        p.add(f"po_{o}", "buf", fanin=[f"u_{o}"], output=True)
    return p


def _bb_parent(c):
    import circuitgraph as cg

    p = cg.Circuit(name="parent")
    conn = {}
    for i in sorted(c.inputs()):
        p.add(f"pi_{i}", "input")
        conn[i] = f"pi_{i}"
    for o in sorted(c.outputs()):
        p.add(f"po_{o}", "buf", output=True)
        conn[o] = f"po_{o}"
    p.add_blackbox(cg.BlackBox("child", c.inputs(), c.outputs()), "u", conn)
    return p


def _fill(c):
    if c.inputs() & c.outputs():
        raise _Skip()
    p = _bb_parent(c)
    p.fill_blackbox("u", c)
    return p


def _strip_bb(c):
    import circuitgraph as cg

    if c.inputs() & c.outputs():
        raise _Skip()
    return cg.tx.strip_blackboxes(_bb_parent(c))


class _Skip(Exception):
    pass


def run_outputs(job, acc):
    import circuitgraph as cg

    prods = producers()
    for _idx, desc in space.chunk(corpus(), job["chunk"], job["of"]):
        c = space.build(desc)
        try:
            cg.lint(c)
        except ValueError:
            continue
        acc.states += 1
        acc.nontrivial += 1
        for pname, fn in prods:
            check_output(acc, pname, fn, desc)
        acc.sample(desc)
    # logic generators
    if job["chunk"] == 0:
        gens = [("half_adder", cg.logic.half_adder), ("full_adder", cg.logic.full_adder)]
        for w in range(1, 7):
            for ci in (False, True):
                for co in (False, True):
                    gens.append((f"adder({w},{ci},{co})", lambda w=w, ci=ci, co=co: cg.logic.adder(w, ci, co)))
            gens.append((f"mux({w})", lambda w=w: cg.logic.mux(w)))
            gens.append((f"popcount({w})", lambda w=w: cg.logic.popcount(w)))
        for gname, gf in gens:
            acc.states += 1
            acc.transitions += 1
            try:
                r = gf()
                cg.lint(r)
                acc.outcome("clean")
            except Exception as e:  # noqa: BLE001
                acc.violation("outputs", f"logic-not-clean:{common.exc_name(e)}", {"kind": "logic", "gen": gname}, repr(e))


def check_output(acc, pname, fn, desc):
    import circuitgraph as cg

    c = space.build(desc)
    acc.transitions += 1
    try:
        r = fn(c)
    except _Skip:
        acc.outcome("skipped")
        return
    except Exception as e:  # noqa: BLE001
        # whether the producer may raise is other properties' business
        acc.outcome("producer-raises")
        acc.extra.setdefault("producer_raises", [])
        tag = f"{pname}:{common.exc_name(e)}"
        if tag not in acc.extra["producer_raises"]:
            acc.extra["producer_raises"].append(tag)
        return
    try:
        for one in (r if isinstance(r, (list, tuple)) else [r]):
            cg.lint(one)
        acc.outcome("clean")
    except ValueError as e:
        acc.violation("outputs", f"not-lint-clean:{pname}", {"kind": "outputs", "producer": pname, "desc": desc}, repr(e))
    except Exception as e:  # noqa: BLE001
        acc.violation("outputs", f"lint-crashes:{pname}:{common.exc_name(e)}",
                      {"kind": "outputs", "producer": pname, "desc": desc}, repr(e))


def run(job):
    common.setup_paths()
    acc = Acc(job)
    if job["sub"] == "rules":
        run_rules(job, acc)
    else:
        run_outputs(job, acc)
    return acc.result()


def replay(case, job):
    common.setup_paths()
    acc = Acc(job)
    if case["kind"] == "rules":
        check_rules_case(acc, tuple(case["types"]), [tuple(e) for e in case["edges"]], tuple(case["outs"]),
                         tuple(case["names"]), case["reg"], only_flags=[tuple(case["flags"])],
                         retype=tuple(case["retype"]) if case.get("retype") else None)
    elif case["kind"] == "outputs":
        fn = dict(producers())[case["producer"]]
        check_output(acc, case["producer"], fn, case["desc"])
    return acc.result()
