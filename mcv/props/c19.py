"""C19 - transforms, queries and writers never modify or alias their argument.

Exploration: (public function x argument variant) x corpus circuit x edit history.
For every call: a deep snapshot of every argument circuit (all node attribute dicts, edges, name,
registry with BlackBox identity and pin sets) is taken before and compared after, also when the call
raises.  For every Circuit found in the return value: every edit of an edit alphabet is applied to the
result (argument must not change) and, on a second fresh call, to the argument (result must not change).
"""
import os
import tempfile

from mcv import common, snapshot, space
from mcv.common import Acc

ID = "C19"
MECHANISM = ["tx.strip_io", "tx.limit_fanin", "tx.limit_fanout", "tx.miter", "tx.ternary", "tx.sensitization_transform",
             "circuit.copy", "io.circuit_to_verilog", "tx.sequential_unroll", "tx.insert_registers", "tx.supergates"]
RULE = ("case = (function variant, corpus circuit); each is followed by the full edit alphabet applied to result and to "
        "argument; distinct = distinct pair; non-trivial = the call returned at least one Circuit (aliasing is testable) "
        "or raised (the 'also when it raises' clause)")
ASSUMPTIONS = ["tx.syn, tx.aig, utils.visualize need yosys (absent) and are outside the registry",
               "sharing of immutable BlackBox objects between copies is not a violation; mutating one is"]


def bounds(tier):
    q = tier == "quick"
    return {"corpus": [[1, 2, 3], [2, 1, 3]] if q else [[1, 2, 3], [2, 1, 3], [2, 2, 2]]}


def jobs(tier, seed):
    n = 10 if tier == "quick" else 32
    js = [{"sub": "calls", "chunk": i, "of": n} for i in range(n)]
    js.append({"sub": "calls", "chunk": 0, "of": n, "hashseed": 1 + seed % 1000, "primary": False})
    return js


# --- corpus -----------------------------------------------------------------------------------------------

SPECIAL = [
    # flops with two outputs, clock, unconnected qn
    {"name": "seq", "nodes": [["a", "input", [], False], ["clk", "input", [], False], ["q0", "buf", [], False],
                              ["d0", "xor", ["a", "q0"], True]],
     "bbs": [["r0", "FD", ["CK", "D"], ["Q", "QN"], {"CK": "clk", "D": "d0", "Q": "q0"}]]},
    {"name": "seq2", "nodes": [["a", "input", [], False], ["clk", "input", [], False], ["q0", "buf", [], False], ["q1", "buf", [], False],
                               ["d0", "and", ["a", "q1"], False], ["d1", "not", ["q0"], True]],
     "bbs": [["r0", "FD", ["CK", "D"], ["Q", "QN"], {"CK": "clk", "D": "d0", "Q": "q0"}],
             ["r1", "FD", ["CK", "D"], ["Q", "QN"], {"CK": "clk", "D": "d1", "Q": "q1"}]]},
    # constants, an output that is an input, a wide gate, an internal output inside another output's cone
    {"name": "mix", "nodes": [["a", "input", [], True], ["b", "input", [], False], ["c", "input", [], False], ["k", "1", [], False],
                              ["g", "nand", ["a", "b", "c", "k"], True], ["h", "xnor", ["g", "a", "b"], True], ["z", "0", [], True]]},
    {"name": "chain", "nodes": [["a", "input", [], False], ["b", "input", [], False], ["g", "and", ["a", "b"], True],
                                ["h", "or", ["g", "a"], True], ["i", "not", ["h"], False], ["j", "xor", ["i", "b"], True]]},
    # cyclic
    {"name": "loop", "nodes": [["a", "input", [], False], ["p", "and", ["q", "a"], False], ["q", "or", ["p", "a"], True]]},
    # a loop plus a gate that feeds itself (acyclic_unroll rejects it)
    {"name": "selfloop", "nodes": [["a", "input", [], False], ["g1", "and", ["g2", "a"], False], ["g2", "or", ["g1", "a"], True],
                                   ["s", "xor", ["s", "a"], True]]},
    # constants only, no primary input (the bench writer needs an input for its constant idiom)
    {"name": "konst", "nodes": [["k0", "0", [], False], ["k1", "1", [], False], ["g", "nand", ["k0", "k1"], True]]},
    # dead logic next to live logic (lint-clean under the default flags): an unloaded gate chain, an unloaded input
    {"name": "dead", "nodes": [["a", "input", [], False], ["b", "input", [], False], ["u", "input", [], False],
                               ["g", "and", ["a", "b"], True], ["d1", "not", ["a"], False], ["d2", "or", ["d1", "b"], False]]},
    # x constant and an escaped name
    {"name": "esc", "nodes": [["a", "input", [], False], ["kx", "x", [], False], ["\\n[0]", "and", ["a", "kx"], True]]},
]


def corpus(tier):
    for d in SPECIAL:
        yield d
    for d in SPECIAL[:4]:
        yield dict(d, raw=True, name=d["name"] + "_raw")  # built on a bare graph: no 'output' attribute on non-outputs
    for gates in space.circuits(2, 1, max_arity=2, min_gates=1):
        yield dict(space.to_desc(2, gates, outputs="gates"), raw=True)
    for I, G, ar in bounds(tier)["corpus"]:
        for gates in space.circuits(I, G, max_arity=ar, min_gates=1):
            yield space.to_desc(I, gates, outputs="gates")


# --- registry ---------------------------------------------------------------------------------------------------


def registry():
    """name -> callable(list of argument circuits) ; n_args."""
    import circuitgraph as cg

    tx, props, sat, io = cg.tx, cg.props, cg.sat, cg.io

    def first_in(c):
        xs = sorted(c.inputs())
        return xs[0] if xs else sorted(c.nodes())[0]

    def first_out(c):
        xs = sorted(c.outputs())
        return xs[0] if xs else sorted(c.nodes())[-1]

    def last_out(c):
        xs = sorted(c.outputs())
        return xs[-1] if xs else sorted(c.nodes())[-1]

    def gate(c):
        xs = sorted(n for n in c.nodes() if c.type(n) in space.ALL_GATES)
        return xs[0] if xs else sorted(c.nodes())[0]

    def flop_args(c):
        bb = next(iter(c.blackboxes.values()))
        return ("D" if "D" in bb.inputs() else sorted(bb.inputs())[0], "Q" if "Q" in bb.outputs() else sorted(bb.outputs())[0])

    def to_file(c, fmt, behavioral=False):
        d = tempfile.mkdtemp(prefix="mcv_c19_")
        p = os.path.join(d, "x.v" if fmt == "verilog" else "x.bench")
        try:
            cg.to_file(c, p, fmt=fmt, behavioral=behavioral)
            return open(p).read()
        finally:
            if os.path.exists(p):
                os.remove(p)
            os.rmdir(d)

    def state_io(c):
        o, i = sorted(c.outputs()), sorted(c.inputs())
        return {o[0]: i[0]} if o and i and o[0] != i[0] else {}

    R = {
        "Circuit.copy": lambda c: c.copy(),
        "tx.strip_io": lambda c: tx.strip_io(c),
        "tx.strip_outputs": lambda c: tx.strip_outputs(c),
        "tx.strip_inputs": lambda c: tx.strip_inputs(c),
        "tx.strip_blackboxes": lambda c: tx.strip_blackboxes(c),
        "tx.strip_blackboxes(ignore)": lambda c: tx.strip_blackboxes(c, ignore_pins=["CK", "QN"]),
        "tx.relabel": lambda c: tx.relabel(c, {n: f"r_{n}" for n in c}),
        "tx.relabel(empty)": lambda c: tx.relabel(c, {}),
        "tx.subcircuit(all)": lambda c: tx.subcircuit(c, c.nodes()),
        "tx.subcircuit(cone,modify_io)": lambda c: tx.subcircuit(c, c.transitive_fanin(last_out(c)) | {last_out(c)}, modify_io=True),
        "tx.ternary": lambda c: tx.ternary(c),
        "tx.miter(self)": lambda c: tx.miter(c),
        "tx.miter(subset)": lambda c: tx.miter(c, startpoints={first_in(c)}, endpoints={first_out(c)}),
        "tx.unroll": lambda c: tx.unroll(c, 2, state_io(c)),
        "tx.unroll(n=1,no state)": lambda c: tx.unroll(c, 1, {}),
        "tx.sequential_unroll": lambda c: tx.sequential_unroll(c, 2, *flop_args(c)),
        "tx.sequential_unroll(opts)": lambda c: tx.sequential_unroll(c, 2, *flop_args(c), ignore_pins="CK", add_flop_outputs=True,
                                                                 initial_values="0", remove_unloaded=False),
        "tx.sequential_unroll(twice)": lambda c: (tx.sequential_unroll(c, 1, *flop_args(c)), tx.sequential_unroll(c, 2, *flop_args(c))),
        "tx.sensitization_transform": lambda c: tx.sensitization_transform(c, first_in(c)),
        "tx.sensitization_transform(endpoints=last)": lambda c: tx.sensitization_transform(c, first_in(c), endpoints=[last_out(c)]),
        "tx.sensitization_transform(endpoints=str)": lambda c: tx.sensitization_transform(c, gate(c), endpoints=last_out(c)),
        "tx.sensitivity_transform": lambda c: tx.sensitivity_transform(c, last_out(c)),
        "tx.limit_fanin(2)": lambda c: tx.limit_fanin(c, 2),
        "tx.limit_fanin(5)": lambda c: tx.limit_fanin(c, 5),
        "tx.limit_fanout(2)": lambda c: tx.limit_fanout(c, 2),
        "tx.limit_fanout(5)": lambda c: tx.limit_fanout(c, 5),
        "tx.acyclic_unroll": lambda c: tx.acyclic_unroll(c),
        "tx.supergates": lambda c: tx.supergates(c),
        "tx.supergates(super)": lambda c: tx.supergates(c, construct_supercircuit=True),
        "tx.insert_registers(1)": lambda c: tx.insert_registers(c, 1),
        "tx.insert_registers(2)": lambda c: tx.insert_registers(c, 2),
        "props.influence": lambda c: props.influence(c, last_out(c), approx=False),
        "props.influence(supergates)": lambda c: props.influence(c, last_out(c), supergates=True, approx=False),
        "props.avg_sensitivity": lambda c: props.avg_sensitivity(c, last_out(c), approx=False),
        "props.sensitivity": lambda c: props.sensitivity(c, last_out(c)),
        "props.sensitize": lambda c: props.sensitize(c, first_in(c)),
        "props.signal_probability": lambda c: props.signal_probability(c, last_out(c), approx=False),
        "props.signal_probability(approx)": lambda c: props.signal_probability(c, last_out(c), approx=True),
        "props.levelize": lambda c: props.levelize(c),
        "sat.cnf": lambda c: sat.cnf(c),
        "sat.solve": lambda c: sat.solve(c),
        "sat.solve(assume)": lambda c: sat.solve(c, {last_out(c): True}),
        "sat.solve(unknown)": lambda c: sat.solve(c, {"no_such": True}),
        "sat.construct_solver": lambda c: sat.construct_solver(c, {first_in(c): False}),
        "sat.model_count": lambda c: sat.model_count(c, {last_out(c): False}),
        "sat.approx_model_count": lambda c: sat.approx_model_count(c, {last_out(c): True}),
        "io.circuit_to_verilog": lambda c: io.circuit_to_verilog(c),
        "io.circuit_to_verilog(behavioral)": lambda c: io.circuit_to_verilog(c, behavioral=True),
        "io.circuit_to_bench": lambda c: io.circuit_to_bench(c),
        "to_file(verilog)": lambda c: to_file(c, "verilog"),
        "to_file(verilog,behavioral)": lambda c: to_file(c, "verilog", True),
        "to_file(bench)": lambda c: to_file(c, "bench"),
        "to_file(bad fmt)": lambda c: to_file(c, "nope"),
        "utils.lint": lambda c: cg.lint(c),
        "utils.lint(all flags)": lambda c: cg.lint(c, fail_fast=False, unloaded=True, undriven=True, single_input_gates=True),
        # read-only Circuit methods
        "Circuit.queries": lambda c: [c.type(gate(c)), c.type(sorted(c.nodes())), c.filter_type(["and", "input"]), c.nodes(), c.edges(),
                                      c.fanin(gate(c)), c.fanout(first_in(c)), c.transitive_fanin(last_out(c)),
                                      c.transitive_fanout(first_in(c)), c.inputs(), c.outputs(), c.io(), c.is_output(gate(c)),
                                      c.startpoints(), c.startpoints(last_out(c)), c.endpoints(), c.endpoints(first_in(c)),
                                      list(c.reconvergent_fanout_nodes()), c.has_reconvergent_fanout(), c.is_cyclic(),
                                      c.uid(gate(c)), c.uid("fresh"), len(c), list(c), gate(c) in c,
                                      list(c.paths(first_in(c), last_out(c)))],
        "Circuit.depths": lambda c: [c.fanin_depth(last_out(c)), c.fanout_depth(first_in(c)), c.fanin_depth(sorted(c.outputs())),
                                     c.fanout_depth(sorted(c.inputs()), maximum=False), list(c.topo_sort())],
        "Circuit.kcuts": lambda c: [c.kcuts(last_out(c), 2), c.kcuts(last_out(c), 3, computed={})],
        "Circuit.type(missing)": lambda c: c.type("no_such_node"),
        "Circuit.filter_type(bad)": lambda c: c.filter_type("bogus"),
    }
    R2 = {
        # functions of two circuits: (fresh host, argument) -> result ; the ARGUMENT is the second one
        "tx.miter(c0,c1)": lambda a, b: tx.miter(a, b),
        "add_subcircuit(arg)": lambda a, b: (_host().add_subcircuit(b, "u", {first_in(b): "h_in"} if b.inputs() else None)),
        "add_subcircuit(arg, keep io)": lambda a, b: (_host().add_subcircuit(b, "u", None, strip_io=False)),
        "fill_blackbox(arg)": lambda a, b: _fill(b),
    }

    def _host():
        h = cg.Circuit("host")
        h.add("h_in", "input")
        h.add("h_out", "buf", output=True)
        return h

    def _fill(b):
        h = _host()
        ins, outs = set(b.inputs()), set(b.outputs())
        h.add_blackbox(cg.BlackBox("child", ins, outs), "u", {i: "h_in" for i in ins})
        h.fill_blackbox("u", b)
        return h

    return R, R2


# --- edits --------------------------------------------------------------------------------------------------------


def edits():
    import circuitgraph as cg

    def any_node(c):
        return sorted(c.nodes())[0]

    def any_gate(c):
        xs = sorted(n for n in c.nodes() if c.type(n) in space.ALL_GATES)
        return xs[0] if xs else None

    def e_add(c):
        c.add("zz_new", "input")

    def e_connect(c):
        g = any_gate(c)
        c.add("zz_and", "and", fanin=[any_node(c)])
        if g:
            c.connect(g, "zz_and")

    def e_disconnect(c):
        for u, v in sorted(c.edges())[:2]:
            c.disconnect(u, v)

    def e_set_type(c):
        g = any_gate(c)
        if g:
            c.set_type(g, "xnor" if c.type(g) not in ("buf", "not") else ("not" if c.type(g) == "buf" else "buf"))

    def e_set_output(c):
        for n in sorted(c.nodes()):
            c.set_output(n, not c.is_output(n))

    def e_attr(c):
        for n in sorted(c.nodes())[:2]:
            c.graph.nodes[n]["type"] = "or"
            c.graph.nodes[n]["zz_custom"] = 1

    def e_registry_add(c):
        c.blackboxes["zz_inst"] = cg.BlackBox("zz", ["i"], ["o"])

    def e_registry_pop(c):
        for k in sorted(c.blackboxes):
            c.blackboxes.pop(k)

    def e_bb_pins(c):
        for k in sorted(c.blackboxes):
            pass

    def e_rename(c):
        c.name = c.name + "_edited"

    def e_remove(c):
        c.remove(sorted(c.nodes())[-1:])

    def e_relabel(c):
        n = any_node(c)
        c.relabel({n: "zz_relabeled"})

    def e_clear(c):
        c.graph.clear()

    return [("add", e_add), ("connect", e_connect), ("set_type", e_set_type), ("set_output", e_set_output), ("attr", e_attr),
            ("registry_add", e_registry_add), ("rename", e_rename), ("relabel", e_relabel), ("disconnect", e_disconnect),
            ("registry_pop", e_registry_pop), ("remove", e_remove), ("clear", e_clear)]


def circuits_in(x, depth=0):
    import circuitgraph as cg

    if isinstance(x, cg.Circuit):
        return [x]
    out = []
    if depth > 3:
        return out
    if isinstance(x, dict):
        for v in x.values():
            out += circuits_in(v, depth + 1)
    elif isinstance(x, (list, tuple, set, frozenset)):
        for v in x:
            out += circuits_in(v, depth + 1)
    return out


def applicable(name, c):
    if name.startswith("tx.sequential_unroll"):
        return bool(c.blackboxes)
    return True


def check_call(acc, name, fn, desc, two=False):
    """One function variant on one corpus circuit."""
    case = {"kind": "call", "fn": name, "desc": desc}
    ed = edits()

    def call():
        arg = space.build(desc)
        other = space.build(desc) if two else None
        s_arg = snapshot.snap(arg)
        s_other = snapshot.snap(other) if two else None
        acc.transitions += 1
        exc = None
        res = None
        try:
            res = fn(other, arg) if two else fn(arg)
            if res is not None and not isinstance(res, (int, float, str, bool, dict, list, tuple, set)):
                try:
                    import circuitgraph as cg

                    if not isinstance(res, cg.Circuit) and hasattr(res, "__iter__") and not hasattr(res, "__len__"):
                        res = list(res)
                except Exception:  # noqa: BLE001
                    pass
        except Exception as e:  # noqa: BLE001
            exc = e
        return arg, other, s_arg, s_other, res, exc

    arg, other, s_arg, s_other, res, exc = call()
    tag = "raises" if exc is not None else "returns"
    acc.outcome(f"{tag}")
    if snapshot.snap(arg) != s_arg:
        acc.violation("mutation", f"argument-modified:{name}:{tag}", case, _diff(s_arg, snapshot.snap(arg)))
        return True
    if two and snapshot.snap(other) != s_other:
        acc.violation("mutation", f"first-argument-modified:{name}:{tag}", case, _diff(s_other, snapshot.snap(other)))
        return True
    if exc is not None:
        acc.observe(name, common.exc_name(exc))
        return True
    found = circuits_in(res)
    acc.observe(name, len(found))
    if not found:
        return False
    # edit the result(s): the argument must not change
    for r in found:
        if r is arg:
            acc.violation("alias", f"result-is-argument:{name}", case, "the returned circuit is the argument object itself")
            return True
        for en, ef in ed:
            acc.transitions += 1
            try:
                ef(r)
            except Exception:  # noqa: BLE001
                pass
            if snapshot.snap(arg) != s_arg:
                acc.violation("alias", f"edit-of-result-changes-argument:{name}", dict(case, edit=en), _diff(s_arg, snapshot.snap(arg)))
                return True
    # fresh call, edit the argument: the result(s) must not change
    arg, other, s_arg, s_other, res, exc = call()
    found = circuits_in(res)
    s_res = [snapshot.snap(r) for r in found]
    for en, ef in ed:
        acc.transitions += 1
        try:
            ef(arg)
        except Exception:  # noqa: BLE001
            pass
        for r, s0 in zip(found, s_res):
            if snapshot.snap(r) != s0:
                acc.violation("alias", f"edit-of-argument-changes-result:{name}", dict(case, edit=en), _diff(s0, snapshot.snap(r)))
                return True
    return True


def _diff(a, b):
    out = []
    for label, x, y in zip(("name", "nodes", "edges", "registry"), a, b):
        if x != y:
            if isinstance(x, tuple):
                dx = [e for e in x if e not in y][:3]
                dy = [e for e in y if e not in x][:3]
                out.append(f"{label}: -{dx} +{dy}")
            else:
                out.append(f"{label}: {x!r} -> {y!r}")
    return "; ".join(out)[:500]


def run(job):
    common.setup_paths()
    acc = Acc(job)
    os.environ.pop("MCV_APPROXMC_COPY", None)
    R, R2 = registry()
    for _idx, desc in space.chunk(corpus(job["tier"]), job["chunk"], job["of"]):
        c = space.build(desc)
        for name in sorted(R):
            if not applicable(name, c):
                continue
            acc.states += 1
            if check_call(acc, name, R[name], desc):
                acc.nontrivial += 1
        for name in sorted(R2):
            acc.states += 1
            if check_call(acc, name, R2[name], desc, two=True):
                acc.nontrivial += 1
        acc.sample({"desc": desc})
        if acc.out_of_time():
            break
    acc.extra["functions"] = len(R) + len(R2)
    return acc.result()


def replay(case, job):
    common.setup_paths()
    acc = Acc(job)
    R, R2 = registry()
    name = case["fn"]
    if name in R:
        check_call(acc, name, R[name], case["desc"])
    else:
        check_call(acc, name, R2[name], case["desc"], two=True)
    return acc.result()
