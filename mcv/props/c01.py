"""C01 - Tseitin CNF / solve() is exact for circuit semantics.

Sub-spaces
  gate    : one gate of every type at fan-in 1..5 (parity 6) over structurally distinct operands,
            all assignments of pool names to operand roles (order axis).
  comb    : all circuits (acyclic AND cyclic) with I inputs and G gates, constants, blackbox variants.
  assume  : solve(c, A) for every partial assignment A (3^n) of every <=4/5-node circuit, under
            enumerated solver answers; unknown node in A must raise ValueError.
  alias   : nodes literally named like the encoder's auxiliary variables.
Oracle (a) no solver: the clause list is evaluated as a truth table over all its variables and
projected on the node variables; it must equal refsim.consistent(c).  (b) solve().
"""
import itertools

from mcv import common, refsim, satref, space
from mcv.common import Acc

ID = "C01"
MECHANISM = ["sat.cnf", "sat.solve", "sat.construct_solver", "sat.add_assumptions"]
RULE = ("case = circuit (gate / composition / alias) or (circuit, assumption set, solver answer); distinct = distinct "
        "desc (+assumption); non-trivial = circuit has >= 2 distinct consistent valuations or the assumption is unsatisfiable")
ASSUMPTIONS = ["lint-clean circuits without x nodes (cnf rejects x)",
               "solve() runs on the vendored DPLL stand-in; the CNF-vs-circuit comparison (oracle a) uses no solver"]

POOL = ["p", "q", "r", "s", "t", "u"]


def bounds(tier):
    q = tier == "quick"
    return {"gate_fanin": 5, "parity_fanin": 6, "perm_fanin": 4 if q else 5,
            "acyclic": [[2, 2], [1, 3]] if q else [[2, 2], [1, 3], [3, 2], [2, 3]],
            "cyclic": [[2, 2], [1, 2], [1, 3]] if q else [[2, 2], [1, 2], [1, 3], [2, 3]],
            "assume_nodes": 4 if q else 5, "hash_seeds": 3 if q else 5}


def jobs(tier, seed):
    b = bounds(tier)
    js = []
    seeds = [0, 1, 2, 3, 4][: b["hash_seeds"] - 1] + [5 + seed % 1000]
    for hs in seeds:
        js.append({"sub": "gate", "hashseed": hs, "primary": hs == 0, "perm": b["perm_fanin"]})
        js.append({"sub": "alias", "hashseed": hs, "primary": hs == 0})
    for I, G in b["acyclic"]:
        n = max(1, space.count_circuits(I, G, min_gates=G) // 4000)
        for i in range(n):
            js.append({"sub": "comb-acyclic", "I": I, "G": G, "chunk": i, "of": n})
        js.append({"sub": "comb-acyclic", "I": I, "G": G, "chunk": 0, "of": n, "hashseed": seeds[-1], "primary": False})
    for I, G in b["cyclic"]:
        tot = sum(1 for _ in space.cyclic_circuits(I, G)) if (I, G) != (2, 3) else 92 ** 3
        n = max(1, tot // 6000)
        for i in range(n):
            js.append({"sub": "comb-cyclic", "I": I, "G": G, "chunk": i, "of": n})
        js.append({"sub": "comb-cyclic", "I": I, "G": G, "chunk": 0, "of": n, "hashseed": seeds[-1], "primary": False})
    js.append({"sub": "comb-bb", "chunk": 0, "of": 1})
    js.append({"sub": "comb-selfloop", "chunk": 0, "of": 1})
    js += [{"sub": "history", "chunk": i, "of": 4} for i in range(4)]
    na = 16 if tier == "quick" else 48
    for i in range(na):
        js.append({"sub": "assume", "chunk": i, "of": na, "nodes": b["assume_nodes"]})
    return js


# --- oracle (a) --------------------------------------------------------------------------------


def check_cnf(acc, c, case, site):
    """cnf(c) projected on node variables == consistent valuations of c."""
    import circuitgraph as cg

    case["site"] = site
    acc.transitions += 1
    nodes = sorted(c.graph.nodes)
    try:
        want, names = refsim.consistent(c.graph, nodes)
    except refsim.RefError:
        acc.outcome("ref-skip")
        return None
    try:
        formula, variables = cg.sat.cnf(c)
        node_var = {n: variables.id(n) for n in nodes}
        clauses = [list(cl) for cl in formula.clauses]
        nv = max([formula.nv] + list(node_var.values()))
    except Exception as e:  # noqa: BLE001
        acc.violation(site, f"cnf-raises:{common.exc_name(e)}", case, repr(e))
        return None
    missing = [n for n in nodes if node_var[n] > formula.nv]
    if missing:
        acc.violation(site, "node-variable-not-in-formula", case, f"{missing} have no clause; solve() would index past the model")
    proj = satref.cnf_projection(clauses, nv, node_var, nodes)
    if proj is None:
        acc.outcome("too-many-variables")
        acc.extra["skipped_too_many_vars"] = acc.extra.get("skipped_too_many_vars", 0) + 1
        return None
    acc.observe(hex(want))
    nvals = refsim.popcount(want)
    acc.outcome("sat" if nvals else "unsat")
    if proj != want:
        diff = proj ^ want
        j = (diff & -diff).bit_length() - 1
        val = {n: (j >> i) & 1 for i, n in enumerate(nodes)}
        mode = "cnf-admits-inconsistent" if (proj >> j) & 1 else "cnf-excludes-consistent"
        acc.violation(site, mode, case, f"valuation {val}")
    return want


def check_solve(acc, c, case, site, want, assumption, answers):
    """solve(c, A) under each solver answer policy in ``answers``."""
    import circuitgraph as cg

    nodes = sorted(c.graph.nodes)
    agree = want
    k = len(nodes)
    for n, v in assumption.items():
        m = refsim.var_mask(nodes.index(n), k)
        agree &= m if v else ~m
    expect_sat = bool(agree)
    pols = list(answers)
    i = 0
    while i < len(pols):
        pol = pols[i]
        i += 1
        satref.set_policy(pol)
        acc.transitions += 1
        cc = dict(case)
        cc.update(assumption=assumption, policy=list(pol), site=site)
        try:
            res = cg.sat.solve(c, dict(assumption))
        except Exception as e:  # noqa: BLE001
            acc.violation(site, f"solve-raises:{common.exc_name(e)}", cc, repr(e))
            continue
        st = satref.policy_stats()
        if pol == ("index", 0) and answers == "all" :
            pass
        if res is False:
            acc.outcome("solve-unsat")
            if expect_sat:
                acc.violation(site, "solve-false-but-satisfiable", cc, "")
            continue
        acc.outcome("solve-sat")
        if not expect_sat:
            acc.violation(site, "solve-model-but-unsatisfiable", cc, str(res))
            continue
        if not isinstance(res, dict) or set(res) != set(nodes):
            acc.violation(site, "solve-wrong-keys", cc, str(res))
            continue
        j = sum((1 << idx) for idx, n in enumerate(nodes) if res[n])
        if any(bool(res[n]) != bool(v) for n, v in assumption.items()):
            acc.violation(site, "solve-ignores-assumption", cc, str(res))
        elif not (want >> j) & 1:
            acc.violation(site, "solve-inconsistent-valuation", cc, str(res))
    satref.set_policy(("first",))
    return expect_sat


ANSWERS_FEW = [("first",), ("index", 1), ("last",)]
ANSWERS_MANY = [("first",), ("index", 1), ("index", 2), ("index", 3), ("index", 5), ("index", 7), ("last",)]


# --- sub-spaces ---------------------------------------------------------------------------------


def operand_kit(m):
    """m structurally distinct operands: descs of helper nodes + the operand role names."""
    roles = []
    nodes = [["i0", "input", [], False], ["i1", "input", [], False]]
    kinds = ["i0", "ninv", "i1", "k1", "gand", "k0"]
    for r in range(m):
        k = kinds[r]
        nm = f"R{r}"
        if k in ("i0", "i1"):
            nodes.append([nm, "buf", [k], False])
        elif k == "ninv":
            nodes.append([nm, "not", ["i1"], False])
        elif k == "k1":
            nodes.append([nm, "1", [], False])
        elif k == "k0":
            nodes.append([nm, "0", [], False])
        elif k == "gand":
            nodes.append([nm, "and", ["i0", "i1"], False])
        roles.append(nm)
    return nodes, roles


def run_gate(job, acc):
    orders_seen = {}
    for t in space.ALL_GATES:
        fanins = [1] if t in space.SINGLE else range(1, (6 if t in ("xor", "xnor") else 5) + 1)
        for m in fanins:
            base_nodes, roles = operand_kit(m)
            if m <= job["perm"]:
                perms = list(itertools.permutations(POOL[:m]))
            else:
                perms = [tuple(POOL[:m]), tuple(reversed(POOL[:m])), tuple(POOL[1:m] + POOL[:1])]
            for perm in perms:
                mapping = dict(zip(roles, perm))
                desc = space.rename({"name": "top", "nodes": base_nodes + [["g", t, roles, True]]}, mapping)
                case = {"kind": "gate", "desc": desc}
                c = space.build(desc)
                acc.states += 1
                acc.nontrivial += 1
                if t in ("xor", "xnor") and m >= 2:
                    inv = {v: k for k, v in mapping.items()}
                    order = tuple(inv[x] for x in c.fanin("g"))
                    orders_seen.setdefault(m, set()).add(order)
                want = check_cnf(acc, c, case, "gate")
                if want is not None:
                    check_solve(acc, c, case, "gate", want, {}, ANSWERS_FEW)
                    check_solve(acc, c, case, "gate", want, {"g": True}, ANSWERS_FEW)
                    check_solve(acc, c, case, "gate", want, {"g": False}, ANSWERS_FEW)
                acc.sample(case)
    acc.extra["parity_operand_orders_seen"] = {str(m): [list(o) for o in sorted(s)] for m, s in orders_seen.items()}


def run_comb(job, acc):
    I, G = job["I"], job["G"]
    if job["sub"] == "comb-acyclic":
        it = space.circuits(I, G, min_gates=G)
    else:
        it = space.cyclic_circuits(I, G)
    consts_variants = [()]
    for _idx, gates in space.chunk(it, job["chunk"], job["of"]):
        desc = space.to_desc(I, gates, outputs="sinks")
        case = {"kind": "comb", "desc": desc}
        c = space.build(desc)
        acc.states += 1
        want = check_cnf(acc, c, case, job["sub"])
        if want is not None:
            if refsim.popcount(want) >= 2:
                acc.nontrivial += 1
            check_solve(acc, c, case, job["sub"], want, {}, [("first",), ("last",)])
        acc.sample(case)
        if acc.out_of_time():
            break
    if job["chunk"] == 0 and job["sub"] == "comb-acyclic":
        # constants feeding gates
        for gates in space.circuits(1, 2, consts=("0", "1"), min_gates=2):
            desc = space.to_desc(1, gates, consts=("0", "1"), outputs="sinks")
            case = {"kind": "comb", "desc": desc}
            c = space.build(desc)
            acc.states += 1
            want = check_cnf(acc, c, case, "comb-const")
            if want is not None:
                check_solve(acc, c, case, "comb-const", want, {}, [("first",), ("last",)])


def bb_variants():
    for gates in space.circuits(2, 1, min_gates=1):
        for t2 in ("and", "xor", "nor"):
            d = space.to_desc(2, gates, outputs=[])
            d["nodes"].append(["w", "buf", [], False])
            d["nodes"].append(["o", t2, ["w", "g0"], True])
            d["bbs"] = [["u", "bbx", ["d"], ["q"], {"d": "g0", "q": "w"}]]
            yield d


def run_bb(job, acc):
    for desc in bb_variants():
        case = {"kind": "comb", "desc": desc}
        c = space.build(desc)
        acc.states += 1
        acc.nontrivial += 1
        want = check_cnf(acc, c, case, "comb-bb")
        if want is not None:
            for a in ({}, {"o": True}, {"u.d": False, "w": True}, {"u.q": True, "o": False}):
                check_solve(acc, c, case, "comb-bb", want, a, ANSWERS_FEW)
        acc.sample(case)


def check_unknown(acc, c, case):
    """An assumption on a node that is not in the circuit must be rejected with ValueError."""
    import circuitgraph as cg

    acc.transitions += 1
    cc = dict(case, site="assume")
    try:
        cg.sat.solve(c, {"no_such_node": True})
        acc.violation("assume", "unknown-node-accepted", cc, "")
    except ValueError:
        acc.outcome("unknown-node-ValueError")
    except Exception as e:  # noqa: BLE001
        acc.violation("assume", f"unknown-node-wrong-exception:{common.exc_name(e)}", cc, repr(e))


def selfloop_descs():
    """Gates that list themselves in their fan-in (legal and lint-clean: g = and(a, g))."""
    for t in space.ALL_GATES:
        for others in ([], ["a"], ["a", "b"], ["h"]):
            if t in space.SINGLE and others:
                continue
            nodes = [["a", "input", [], False], ["b", "input", [], False], ["h", "xor", ["a", "b"], False]]
            nodes.append(["g", t, others + ["g"], True])
            yield {"name": "top", "nodes": nodes}
            nodes2 = [list(x) for x in nodes[:3]] + [["g", t, others + ["g"], False], ["o", "nand", ["g", "b"], True]]
            yield {"name": "top", "nodes": nodes2}


def run_selfloop(job, acc):
    for desc in selfloop_descs():
        case = {"kind": "comb", "desc": desc}
        c = space.build(desc)
        acc.states += 1
        acc.nontrivial += 1
        want = check_cnf(acc, c, case, "comb-selfloop")
        if want is not None:
            for a in ({}, {"g": True}, {"g": False}, {"a": True, "g": True}):
                check_solve(acc, c, case, "comb-selfloop", want, a, ANSWERS_FEW)
        acc.sample(case)


def run_assume(job, acc):
    import circuitgraph as cg

    maxn = job["nodes"]
    its = [((2, g), "a") for g in space.circuits(2, 2, min_gates=1)]
    its += [((1, g), "a") for g in space.circuits(1, 3, min_gates=1)]
    its += [((2, g), "c") for g in space.cyclic_circuits(2, 2)]
    its += [((1, g), "c") for g in space.cyclic_circuits(1, 2)]
    if maxn >= 5:
        its += [((1, g), "c") for g in space.cyclic_circuits(1, 3)]
        its += [((2, g), "a") for g in space.circuits(2, 3, max_arity=2, types=("not", "and", "xor", "nor"), min_gates=3)]
    # constants: an assignment may contradict a tie-off (must then be UNSAT)
    its += [((1, g), "k") for g in space.circuits(1, 1, consts=("0", "1"), max_arity=2, min_gates=1)]
    its += [((0, g), "k") for g in space.circuits(0, 2, consts=("0", "1"), max_arity=2,
                                                  types=("buf", "and", "or", "xor", "nand"), min_gates=1)]
    for _idx, ((I, gates), _k) in space.chunk(iter(its), job["chunk"], job["of"]):
        desc = space.to_desc(I, gates, consts=("0", "1") if _k == "k" else (), outputs="sinks")
        c = space.build(desc)
        nodes = sorted(c.graph.nodes)
        if len(nodes) > maxn:
            continue
        case = {"kind": "assume", "desc": desc}
        try:
            want, _ = refsim.consistent(c.graph, nodes)
        except refsim.RefError:
            continue
        acc.states += 1
        nt = False
        few = len(nodes) >= 4
        for vals in itertools.product((None, False, True), repeat=len(nodes)):
            a = {n: v for n, v in zip(nodes, vals) if v is not None}
            if not a:
                continue
            answers = ANSWERS_FEW if few else ANSWERS_MANY
            sat = check_solve(acc, c, case, "assume", want, a, answers)
            if not sat:
                nt = True
        if nt:
            acc.nontrivial += 1
        check_unknown(acc, c, case)
        acc.sample(case)
        acc.observe(hex(want))


def alias_descs():
    ins = ["p", "q", "r"]
    for t in ("xor", "xnor"):
        for a, b in itertools.permutations(ins, 2):
            alias = f"xor_{a}_{b}"
            for at in ("input", "and", "not"):
                nodes = [[i, "input", [], False] for i in ins]
                fi = [] if at == "input" else (["p", "q"] if at == "and" else ["r"])
                nodes.append([alias, at, fi, True])
                nodes.append(["g", t, ins, True])
                yield {"name": "top", "nodes": nodes}
        # 4-input parity: second-level auxiliary names xor_<x>_xor_<y>_<z>
        for a, b in itertools.permutations(["p", "q", "r", "s"], 2):
            nodes = [[i, "input", [], False] for i in ["p", "q", "r", "s"]]
            nodes.append([f"xor_{a}_{b}", "input", [], False])
            nodes.append(["g", t, ["p", "q", "r", "s"], True])
            yield {"name": "top", "nodes": nodes}
    for at in ("input", "and", "not"):
        for arity in (2, 3):
            nodes = [[i, "input", [], False] for i in ins]
            fi = [] if at == "input" else (["p", "q"] if at == "and" else ["r"])
            nodes.append(["xor_inv_g", at, fi, True])
            nodes.append(["g", "xnor", ins[:arity], True])
            yield {"name": "top", "nodes": nodes}
    # two wide parity gates sharing TWO operands, under every assignment of names to the four roles (the chain
    # order of each gate follows set iteration order, so the shared pair can be met in either order)
    pool8 = POOL + ["x1", "x6"]
    for perm in itertools.permutations(pool8, 4):
        x1, x2, x3, x4 = perm
        for t1, t2 in (("xor", "xnor"),) if perm[0] > perm[1] else (("xor", "xor"), ("xnor", "xnor")):
            for hl in ([x2, x1, x4], [x4, x2, x1]):
                nodes = [[i, "input", [], False] for i in sorted(set(perm))]
                nodes.append(["g", t1, [x1, x2, x3], True])
                nodes.append(["h", t2, hl, True])
                yield {"name": "top", "nodes": nodes}
    # two parity gates sharing an operand pair (shared auxiliary variable is fine if handled)
    for t1, t2 in itertools.product(("xor", "xnor"), repeat=2):
        nodes = [[i, "input", [], False] for i in ["p", "q", "r", "s"]]
        nodes.append(["g", t1, ["p", "q", "r"], True])
        nodes.append(["h", t2, ["p", "q", "s"], True])
        yield {"name": "top", "nodes": nodes}


def run_alias(job, acc):
    for desc in alias_descs():
        case = {"kind": "alias", "desc": desc}
        c = space.build(desc)
        acc.states += 1
        acc.nontrivial += 1
        if "h" in c.graph and len(c.graph.pred["g"]) == 3 and len(c.graph.pred["h"]) == 3:
            lg, lh = list(c.fanin("g")), list(c.fanin("h"))
            if lg[-2:] == lh[-2:][::-1]:
                acc.extra["shared_pair_met_in_opposite_order"] = acc.extra.get("shared_pair_met_in_opposite_order", 0) + 1
        want = check_cnf(acc, c, case, "alias")
        if want is not None:
            check_solve(acc, c, case, "alias", want, {"g": True}, ANSWERS_FEW)
        acc.sample(case)


# --- histories on ONE object: query, edit in place, query again ---------------------------------------------


def apply_history(acc, desc, ops):
    """ops: ["cnf"] | ["solve", A] | ["retype", g, t] | ["rewire", g, old, new] | ["mark", n, bool];
    the LAST op (a query) is judged against the oracle for the object's current state."""
    import circuitgraph as cg

    c = space.build(desc)
    for i, op in enumerate(ops):
        last = i == len(ops) - 1
        case = {"kind": "history", "desc": desc, "ops": ops}
        try:
            if op[0] == "retype":
                c.set_type(op[1], op[2])
            elif op[0] == "rewire":
                c.disconnect(op[2], op[1])
                c.connect(op[3], op[1])
            elif op[0] == "mark":
                c.set_output(op[1], op[2])
            elif not last:
                if op[0] == "cnf":
                    cg.sat.cnf(c)
                else:
                    cg.sat.solve(c, dict(op[1]))
            else:
                want = check_cnf(acc, c, case, "history")
                if want is not None and op[0] == "solve":
                    check_solve(acc, c, case, "history", want, dict(op[1]), [("first",), ("last",)])
        except Exception as e:  # noqa: BLE001
            acc.violation("history", f"{op[0]}-raises:{common.exc_name(e)}", case, repr(e))
            return


def run_history(job, acc):
    flip = {"and": "or", "or": "xor", "xor": "nand", "nand": "nor", "nor": "xnor", "xnor": "and", "buf": "not", "not": "buf"}
    for _idx, gates in space.chunk(space.circuits(2, 2, types=("and", "xor", "nor", "not"), max_arity=2, min_gates=2), job["chunk"], job["of"]):
        desc = space.to_desc(2, gates, outputs="sinks")
        c = space.build(desc)
        out = [n for n in sorted(c.graph.nodes) if c.graph.nodes[n].get("output")][0]
        queries = [["cnf"], ["solve", {}], ["solve", {out: True}], ["solve", {out: False, "a": True}]]
        edits = [["mark", "a", True]]
        for g in ("g0", "g1"):
            t = c.graph.nodes[g]["type"]
            edits.append(["retype", g, flip[t]])
            fi = sorted(c.graph.pred[g])
            cands = [x for x in ("a", "b", "g0") if x != g and x not in fi and not (g == "g0" and x == "g0")]
            if cands and fi and not (g == "g0" and cands[0] == "g1"):
                edits.append(["rewire", g, fi[0], cands[0]])
        for q1 in queries:
            for e1 in edits:
                for q2 in queries:
                    acc.states += 1
                    acc.nontrivial += 1
                    apply_history(acc, desc, [q1, e1, q2])
                for e2 in edits:
                    if e2[0] != e1[0] or e2[1] != e1[1]:
                        acc.states += 1
                        apply_history(acc, desc, [q1, e1, e2, queries[1]])
        acc.sample({"desc": desc, "ops": [queries[1], edits[1], queries[2]]})


def run(job):
    common.setup_paths()
    acc = Acc(job)
    sub = job["sub"]
    if sub == "history":
        run_history(job, acc)
        return acc.result()
    if sub == "gate":
        run_gate(job, acc)
    elif sub in ("comb-acyclic", "comb-cyclic"):
        run_comb(job, acc)
    elif sub == "comb-bb":
        run_bb(job, acc)
    elif sub == "comb-selfloop":
        run_selfloop(job, acc)
    elif sub == "assume":
        run_assume(job, acc)
    elif sub == "alias":
        run_alias(job, acc)
    return acc.result()


def replay(case, job):
    common.setup_paths()
    acc = Acc(job)
    if case.get("kind") == "history":
        apply_history(acc, case["desc"], case["ops"])
        return acc.result()
    site = case.get("site", case.get("kind", "comb"))
    c = space.build(case["desc"])
    if case.get("kind") == "assume":
        check_unknown(acc, c, {k: v for k, v in case.items() if k != "site"})
    want = check_cnf(acc, c, dict(case), site)
    if want is not None:
        a = case.get("assumption", {})
        pol = [tuple(case["policy"])] if case.get("policy") else ANSWERS_MANY
        check_solve(acc, c, dict(case), site, want, a, pol)
    return acc.result()
