"""C05 - fan-in / fan-out limiting, register insertion and acyclic_unroll on DAGs preserve function.

Sub-spaces
  fanin-wide : one wide gate of each multi-input type with m = 2..6 (7) structurally distinct operands,
               k = 2..5, ALL m! name-to-operand assignments for m <= 4 (order axis), with downstream logic.
  fanin-gen  : generic circuits (I,G) with arity up to 4, k = 2, 3.
  fanout     : a driver of each kind with 2..7 loads of mixed kinds (gates, outputs, bb_input pins), k = 2..5,
               and generic circuits with shared fan-in.
  registers  : circuits of depth 2..5, num_stages 1..3 where a stage boundary exists; flops made transparent.
  acyclic    : acyclic_unroll on acyclic circuits (incl. outputs that are inputs / constants).
Oracle: refsim truth tables of every original node before and after.
"""
import itertools

import networkx as nx

from mcv import common, refsim, space
from mcv.common import Acc
from mcv.props.c01 import POOL, operand_kit

ID = "C05"
MECHANISM = ["tx.limit_fanin", "tx.limit_fanout", "tx.insert_registers", "tx.acyclic_unroll"]
RULE = ("case = (circuit, transform, k / num_stages); distinct = distinct tuple; non-trivial = the transform had to "
        "change the graph (some fan-in/fan-out above k, a register inserted)")
ASSUMPTIONS = ["names avoid the transforms' synthesized names (_limit_fanin_, _limit_fanout_, _cg_insert_reg_q_, ff_, c0_, aux_in_)"]


def bounds(tier):
    q = tier == "quick"
    return {"wide_m": 6 if q else 7, "perm_m": 4, "ks": [2, 3, 4, 5], "fanin_gen": [[3, 2, 4]] if q else [[3, 2, 4], [2, 3, 3]],
            "loads": 7, "reg_spaces": [[2, 3, 2]] if q else [[2, 3, 2], [1, 4, 2]], "stages": [1, 2, 3],
            "acyclic": [[2, 2, 3]] if q else [[2, 2, 3], [3, 2, 3], [2, 3, 2]]}


def jobs(tier, seed):
    q = tier == "quick"
    js = []
    seeds = [0, 1, 2] + [3 + seed % 1000] if q else [0, 1, 2, 3, 4, 5 + seed % 1000]
    for hs in seeds:
        js.append({"sub": "fanin-wide", "hashseed": hs, "primary": hs == 0})
    n = 8 if q else 48
    js += [{"sub": "fanin-gen", "chunk": i, "of": n} for i in range(n)]
    js += [{"sub": "fanout", "chunk": i, "of": 8} for i in range(8)]
    js += [{"sub": "fanout", "chunk": i, "of": 8, "hashseed": seeds[-1], "primary": False} for i in range(8)]
    m = 8 if q else 32
    js += [{"sub": "registers", "chunk": i, "of": m} for i in range(m)]
    js += [{"sub": "acyclic", "chunk": i, "of": 4} for i in range(4)]
    js += [{"sub": "chain", "chunk": i, "of": 4} for i in range(4)]
    return js


def tables_of(c, order=None):
    fr = order or sorted(n for n in c.graph.nodes if c.graph.nodes[n].get("type") in ("input", "bb_output"))
    tabs, _fr, full = refsim.tables(c.graph, order=fr)
    return tabs, fr, full


def same_functions(acc, site, case, c, r, extra_ok=True):
    """Every node of c exists in r with the same table; io unchanged."""
    if set(r.inputs()) != set(c.inputs()):
        acc.violation(site, "inputs-changed", case, f"{sorted(r.inputs())} vs {sorted(c.inputs())}")
        return False
    if set(r.outputs()) != set(c.outputs()):
        acc.violation(site, "outputs-changed", case, f"{sorted(r.outputs())} vs {sorted(c.outputs())}")
        return False
    t0, fr, _ = tables_of(c)
    try:
        t1, _, _ = tables_of(r, order=fr)
    except (refsim.RefError, KeyError) as e:
        acc.violation(site, "result-unevaluable", case, repr(e))
        return False
    for n in c.graph.nodes:
        if n not in t1:
            acc.violation(site, "original-node-missing", case, n)
            return False
        if t0[n] != t1[n]:
            acc.violation(site, "function-changed", dict(case, node=n), f"node {n} ({c.graph.nodes[n]['type']}) computes a different function")
            return False
    acc.observe([hex(t0[n]) for n in sorted(t0)])
    return True


def check_fanin(acc, desc, k, site, variant=None):
    import circuitgraph as cg

    case = {"kind": "fanin", "desc": desc, "k": k, "site": site, "variant": variant}
    acc.transitions += 1
    try:
        c, r = space.call_with_history(desc, lambda x: cg.tx.limit_fanin(x, k), variant)
    except Exception as e:  # noqa: BLE001
        acc.violation(site, f"limit_fanin-raises:{common.exc_name(e)}", case, repr(e))
        return False
    over = [n for n in r.graph.nodes if len(r.graph.pred[n]) > k]
    if over:
        acc.violation(site, "fanin-above-k", case, sorted(over))
        return False
    ok = same_functions(acc, site, case, c, r)
    if ok:
        acc.outcome("ok")
    return any(len(c.graph.pred[n]) > k for n in c.graph.nodes)


def run_fanin_wide(job, acc):
    b = bounds(job["tier"])
    seen = {}
    for t in space.MULTI:
        for m in range(2, b["wide_m"] + 1):
            base_nodes, roles = operand_kit(min(m, 6))
            if m == 7:
                base_nodes = base_nodes + [["R6", "nor", ["i0", "i1"], False]]
                roles = roles + ["R6"]
            names = (POOL + ["v"])[:m]
            if m <= b["perm_m"]:
                perms = list(itertools.permutations(names))
            else:
                perms = [tuple(names), tuple(reversed(names)), tuple(names[1:] + names[:1]), tuple(names[2:] + names[:2])]
            for perm in perms:
                mapping = dict(zip(roles, perm))
                nodes = base_nodes + [["g", t, roles, True], ["h", "not", ["g"], True], ["w", "xor", ["g", "i0"], True]]
                desc = space.rename({"name": "top", "nodes": nodes}, mapping)
                if m <= 4:
                    c = space.build(desc)
                    inv = {v: kx for kx, v in mapping.items()}
                    seen.setdefault(m, set()).add(tuple(inv[x] for x in c.fanin("g")))
                for k in b["ks"]:
                    acc.states += 1
                    if check_fanin(acc, desc, k, "fanin-wide"):
                        acc.nontrivial += 1
                acc.sample({"desc": desc})
    acc.extra["operand_orders_seen"] = {str(m): len(s) for m, s in seen.items()}


def run_fanin_gen(job, acc):
    b = bounds(job["tier"])

    def descs():
        for I, G, ar in b["fanin_gen"]:
            for gates in space.circuits(I, G, max_arity=ar, min_gates=G):
                if any(len(fi) > 2 for _t, fi in gates):
                    yield space.to_desc(I, gates, outputs="sinks")
        # wide gates fed by blackbox outputs and driving blackbox inputs
        for t in space.MULTI:
            nodes = [["a", "input", [], False], ["b", "input", [], False], ["c", "input", [], False], ["w", "buf", [], False],
                     ["g", t, ["a", "b", "c", "w"], True]]
            yield {"name": "top", "nodes": nodes, "bbs": [["u", "bbx", ["d"], ["q"], {"d": "g", "q": "w"}]]}

    for _idx, desc in space.chunk(descs(), job["chunk"], job["of"]):
        for k in (2, 3):
            acc.states += 1
            if check_fanin(acc, desc, k, "fanin-gen"):
                acc.nontrivial += 1
            if (_idx // job["of"]) % 4 == 0:
                for v in space.VARIANTS[1:]:
                    acc.states += 1
                    check_fanin(acc, desc, k, "fanin-gen", variant=v)
        acc.sample({"desc": desc})


# --- fanout ------------------------------------------------------------------------------------------


def fanout_descs(max_loads):
    drivers = {
        "input": [],
        "gate": [["d", "and", ["x", "y"], False]],
        "const": [["d", "1", [], False]],
        "outgate": [["d", "xor", ["x", "y"], True]],
    }
    for dk, dn in drivers.items():
        for L in range(2, max_loads + 1):
            nodes = [["x", "input", [], False], ["y", "input", [], False]]
            if dk == "input":
                nodes.append(["d", "input", [], False])
            nodes += [list(n) for n in dn]
            pins = []
            conn = {}
            kinds = ["bufout", "and", "pin", "not", "xor", "or", "pin"]
            for j in range(L):
                kd = kinds[j]
                if kd == "bufout":
                    nodes.append([f"l{j}", "buf", ["d"], True])
                elif kd == "not":
                    nodes.append([f"l{j}", "not", ["d"], j % 2 == 0])
                elif kd == "pin":
                    pins.append(f"p{j}")
                    conn[f"p{j}"] = "d"
                else:
                    nodes.append([f"l{j}", kd, ["d", "x" if j % 2 else "y"], True])
            desc = {"name": "top", "nodes": nodes}
            if pins:
                desc["bbs"] = [["u", "bbx", pins, [], conn]]
            yield desc
    for gates in space.circuits(1, 3, max_arity=2, min_gates=3):
        yield space.to_desc(1, gates, outputs="sinks")
    for gates in space.circuits(2, 3, types=("and", "xor", "not"), max_arity=2, min_gates=3):
        yield space.to_desc(2, gates, outputs="sinks")
    yield from fanout_series()


def fanout_series():
    """Overloaded nodes in series: a -> n0 -> n1 (-> n2), every stage (the input included) with its own number of
    side loads, every stage type in {not, buf, and} - the transform's work on one node must not overload its driver
    or its loads, whatever order the nodes are visited in."""
    side_types = ("and", "or", "xor", "nand")
    plans = []
    for L, loads in ((1, (0, 1, 2, 3, 4)), (2, (0, 1, 2, 3, 4)), (3, (1, 3))):
        for types in itertools.product(("not", "buf", "and"), repeat=L):
            for cnt in itertools.product(loads, repeat=L + 1):
                plans.append((types, cnt))
    for types, cnt in plans:
        nodes = [["a", "input", [], False], ["b", "input", [], False]]
        prev = "a"
        stages = ["a"]
        for s, t in enumerate(types):
            n = f"n{s}"
            nodes.append([n, t, [prev] if t in ("not", "buf") else [prev, "b"], s == len(types) - 1 and cnt[-1] == 0])
            stages.append(n)
            prev = n
        for s, st in enumerate(stages):
            for j in range(cnt[s]):
                nodes.append([f"{st}_ld{j}", side_types[j % 4], [st, "b"], True])
        yield {"name": "top", "nodes": nodes}


def check_fanout(acc, desc, k, variant=None):
    import circuitgraph as cg

    case = {"kind": "fanout", "desc": desc, "k": k, "variant": variant}
    acc.transitions += 1
    try:
        c, r = space.call_with_history(desc, lambda x: cg.tx.limit_fanout(x, k), variant)
    except Exception as e:  # noqa: BLE001
        acc.violation("fanout", f"limit_fanout-raises:{common.exc_name(e)}", case, repr(e))
        return False
    over = [n for n in r.graph.nodes if len(r.graph.succ[n]) > k]
    if over:
        acc.violation("fanout", "fanout-above-k", case, sorted(over))
        return False
    if set(r.blackboxes) != set(c.blackboxes):
        acc.violation("fanout", "blackboxes-changed", case, "")
        return False
    if same_functions(acc, "fanout", case, c, r):
        acc.outcome("ok")
    return any(len(c.graph.succ[n]) > k for n in c.graph.nodes)


def run_fanout(job, acc):
    b = bounds(job["tier"])
    for _idx, desc in space.chunk(fanout_descs(b["loads"]), job["chunk"], job["of"]):
        for k in b["ks"]:
            acc.states += 1
            if check_fanout(acc, desc, k):
                acc.nontrivial += 1
            if (_idx // job["of"]) % 4 == 0 and k <= 3:
                for v in space.VARIANTS[1:]:
                    acc.states += 1
                    check_fanout(acc, desc, k, variant=v)
        acc.sample({"desc": desc})


# --- insert_registers ----------------------------------------------------------------------------------


def depth_of(c):
    g = c.graph
    memo = {}

    def d(n):
        if n not in memo:
            memo[n] = 0 if not g.pred[n] else 1 + max(d(p) for p in g.pred[n])
        return memo[n]

    return max(d(n) for n in g.nodes)


def check_registers(acc, desc, stages, variant=None):
    import circuitgraph as cg

    case = {"kind": "registers", "desc": desc, "num_stages": stages, "variant": variant}
    md = depth_of(space.build(desc))
    inc = round(md / (stages + 1))
    if inc < 1 or not list(range(inc, md, inc)):
        return None  # no stage boundary exists: outside the property's quantifier
    acc.transitions += 1
    try:
        c, r = space.call_with_history(desc, lambda x: cg.tx.insert_registers(x, stages), variant)
    except Exception as e:  # noqa: BLE001
        acc.violation("registers", f"raises:{common.exc_name(e)}", case, repr(e))
        return None
    g0, g1 = c.graph, r.graph
    for n in g0.nodes:
        if n not in g1 or g1.nodes[n].get("type") != g0.nodes[n].get("type") or bool(g1.nodes[n].get("output")) != bool(g0.nodes[n].get("output")):
            acc.violation("registers", "original-node-changed", case, n)
            return None
    new = set(g1.nodes) - set(g0.nodes)
    pins = set()
    for inst, bb in r.blackboxes.items():
        if set(bb.inputs()) != {"clk", "d"} or set(bb.outputs()) != {"q"}:
            acc.violation("registers", "unexpected-blackbox-type", case, inst)
            return None
        pins |= {f"{inst}.clk", f"{inst}.d", f"{inst}.q"}
    qbufs = set()
    for inst in r.blackboxes:
        lo = list(g1.succ[f"{inst}.q"]) if f"{inst}.q" in g1 else []
        if len(lo) != 1 or g1.nodes[lo[0]].get("type") != "buf":
            acc.violation("registers", "flop-q-not-buffered", case, inst)
            return None
        qbufs.add(lo[0])
    allowed = pins | qbufs | {"clk"}
    if new - allowed or not pins <= set(g1.nodes):
        acc.violation("registers", "unexpected-new-nodes", case, sorted(new - allowed))
        return None
    if set(r.inputs()) != set(c.inputs()) | {"clk"} or set(r.outputs()) != set(c.outputs()):
        acc.violation("registers", "io-changed", case, f"{sorted(r.inputs())} / {sorted(r.outputs())}")
        return None
    # transparent flops
    h = nx.DiGraph()
    for n in g1.nodes:
        h.add_node(n, **dict(g1.nodes[n]))
    h.add_edges_from(g1.edges)
    for inst in r.blackboxes:
        h.nodes[f"{inst}.q"]["type"] = "buf"
        h.add_edge(f"{inst}.d", f"{inst}.q")
    t0, fr, full = tables_of(c)
    try:
        assign, full = refsim.free_assign(fr)
        assign["clk"] = (0, 0)
        val = refsim.evaluate(h, assign, full)
    except refsim.RefError as e:
        acc.violation("registers", "result-unevaluable", case, repr(e))
        return None
    for n in g0.nodes:
        if val[n][1] or val[n][0] != t0[n]:
            acc.violation("registers", "function-changed", dict(case, node=n), f"node {n} differs with transparent flops")
            return None
    acc.observe(sorted(r.blackboxes))
    acc.outcome("ok")
    return bool(r.blackboxes)


def run_registers(job, acc):
    b = bounds(job["tier"])

    def descs():
        for I, G, ar in b["reg_spaces"]:
            for gates in space.circuits(I, G, max_arity=ar, min_gates=G):
                yield space.to_desc(I, gates, outputs="sinks")
        for L in (4, 5, 6):  # chains with a side branch
            nodes = [["a", "input", [], False], ["b", "input", [], False]]
            prev = "a"
            for j in range(L):
                nodes.append([f"s{j}", "not" if j % 2 else "and", [prev] if j % 2 else [prev, "b"], j == L - 1])
                prev = f"s{j}"
            nodes.append(["side", "xor", ["s1", "b"], True])
            yield {"name": "top", "nodes": nodes}

    for _idx, desc in space.chunk(descs(), job["chunk"], job["of"]):
        for st in b["stages"]:
            r = check_registers(acc, desc, st)
            if r is None:
                continue
            acc.states += 1
            if r:
                acc.nontrivial += 1
            if (_idx // job["of"]) % 4 == 0:
                for v in space.VARIANTS[1:]:
                    acc.states += 1
                    check_registers(acc, desc, st, variant=v)
        acc.sample({"desc": desc})


# --- acyclic_unroll on acyclic circuits -------------------------------------------------------------


def check_acyclic(acc, desc, variant=None):
    import circuitgraph as cg

    case = {"kind": "acyclic", "desc": desc, "variant": variant}
    acc.transitions += 1
    try:
        c, r = space.call_with_history(desc, cg.tx.acyclic_unroll, variant)
    except Exception as e:  # noqa: BLE001
        acc.violation("acyclic", f"raises:{common.exc_name(e)}", case, repr(e))
        return
    if set(r.inputs()) != set(c.inputs()) or set(r.outputs()) != set(c.outputs()):
        acc.violation("acyclic", "io-changed", case, f"{sorted(r.inputs())} / {sorted(r.outputs())}")
        return
    t0, fr, _ = tables_of(c)
    try:
        t1, _, _ = tables_of(r, order=fr)
    except (refsim.RefError, KeyError) as e:
        acc.violation("acyclic", "result-unevaluable", case, repr(e))
        return
    for o in c.outputs():
        if t0[o] != t1[o]:
            acc.violation("acyclic", "function-changed", dict(case, node=o), f"output {o} differs")
            return
    acc.observe([hex(t0[o]) for o in sorted(c.outputs())])
    acc.outcome("ok")


def run_acyclic(job, acc):
    b = bounds(job["tier"])

    def descs():
        for I, G, ar in b["acyclic"]:
            for gates in space.circuits(I, G, max_arity=ar, min_gates=1):
                yield space.to_desc(I, gates, outputs="sinks")
        for gates in space.circuits(2, 1, max_arity=2, min_gates=1):
            yield space.to_desc(2, gates, outputs="all")
        for gates in space.circuits(1, 2, max_arity=2, consts=("0", "1"), min_gates=1):
            yield space.to_desc(1, gates, consts=("0", "1"), outputs="all")
        for gates in space.circuits(0, 2, types=("and", "xor", "not", "nor"), max_arity=2, consts=("0", "1"), min_gates=1):
            yield space.to_desc(0, gates, consts=("0", "1"), outputs="sinks")   # no primary input at all

    for _idx, desc in space.chunk(descs(), job["chunk"], job["of"]):
        acc.states += 1
        acc.nontrivial += 1
        check_acyclic(acc, desc)
        if (_idx // job["of"]) % 4 == 0:
            for v in space.VARIANTS[1:]:
                acc.states += 1
                check_acyclic(acc, desc, variant=v)
        acc.sample({"desc": desc})


# --- chains of transforms (start from non-initial states) ----------------------------------------------


def chain_descs():
    for t in space.MULTI:
        for m in (5, 6):
            base_nodes, roles = operand_kit(m)
            nodes = base_nodes + [["g", t, roles, True], ["h", "not", ["g"], True], ["w", "xor", ["g", "i0"], True],
                                  ["v", "and", ["g", "i1", "i0"], True], ["z", "nor", ["g", "R0"], True]]
            yield {"name": "top", "nodes": nodes}
    yield from itertools.islice(fanout_descs(6), 0, 20)


def check_chain(acc, desc, steps):
    import circuitgraph as cg

    case = {"kind": "chain", "desc": desc, "steps": steps}
    c = space.build(desc)
    r = c
    for i, (which, k) in enumerate(steps):
        acc.transitions += 1
        try:
            r = cg.tx.limit_fanin(r, k) if which == "fanin" else cg.tx.limit_fanout(r, k)
        except Exception as e:  # noqa: BLE001
            acc.violation("chain", f"{which}-raises:{common.exc_name(e)}", case, repr(e))
            return
    which, k = steps[-1]
    deg = r.graph.pred if which == "fanin" else r.graph.succ
    over = [n for n in r.graph.nodes if len(deg[n]) > k]
    if over:
        acc.violation("chain", f"{which}-above-k-after-chain", case, sorted(over))
        return
    if same_functions(acc, "chain", case, c, r):
        acc.outcome("chain-ok")


def run_chain(job, acc):
    ks = (2, 3, 4, 5)
    steps_all = [[(a, ka), (b, kb)] for a in ("fanin", "fanout") for ka in ks for b in ("fanin", "fanout") for kb in ks]
    steps_all += [[("fanin", 4), ("fanin", 3), ("fanin", 2)], [("fanout", 4), ("fanin", 3), ("fanout", 2)], [("fanin", 5), ("fanout", 2), ("fanin", 2)]]
    for _idx, desc in space.chunk(chain_descs(), job["chunk"], job["of"]):
        for steps in steps_all:
            acc.states += 1
            acc.nontrivial += 1
            check_chain(acc, desc, [list(s) for s in steps])
        acc.sample({"desc": desc, "steps": steps_all[0]})


def run(job):
    common.setup_paths()
    acc = Acc(job)
    {"chain": run_chain, "fanin-wide": run_fanin_wide, "fanin-gen": run_fanin_gen, "fanout": run_fanout, "registers": run_registers,
     "acyclic": run_acyclic}[job["sub"]](job, acc)
    return acc.result()


def replay(case, job):
    common.setup_paths()
    acc = Acc(job)
    k = case["kind"]
    if k == "fanin":
        check_fanin(acc, case["desc"], case["k"], case.get("site", "fanin-wide"), variant=case.get("variant"))
    elif k == "fanout":
        check_fanout(acc, case["desc"], case["k"], variant=case.get("variant"))
    elif k == "registers":
        check_registers(acc, case["desc"], case["num_stages"], variant=case.get("variant"))
    elif k == "chain":
        check_chain(acc, case["desc"], case["steps"])
    else:
        check_acyclic(acc, case["desc"], variant=case.get("variant"))
    return acc.result()
