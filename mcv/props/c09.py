"""C09 - unrolling equals iterated execution.

Sub-spaces
  unroll : all acyclic circuits (I, G) x every injective partial map outputs -> inputs as state_io
           (empty and total included, outputs that are themselves inputs included) x n = 1..N.
  seq    : combinational logic around 1..2 flip-flop blackboxes of one type (two pin alphabets) x
           add_flop_outputs x initial_values (None, '0', '1', per-flop dicts) x remove_unloaded x
           ignore_pins x n.
Oracle: refsim iterated on the ORIGINAL circuit, bit-parallel over every initial state and every
input sequence.
"""
import itertools

from mcv import common, refsim, space
from mcv.common import Acc

ID = "C09"
MECHANISM = ["tx.unroll", "tx.sequential_unroll", "tx.strip_blackboxes"]
RULE = ("case = (circuit, state_io, n) or (sequential circuit, options, n); distinct = distinct tuple; non-trivial = "
        "state_io non-empty and n >= 2 (values really flow between iterations)")
ASSUMPTIONS = ["node names avoid the unroller's synthesized names (<io>_cg_unroll_<t>, unrolled_<t>_*)",
               "sequential circuits: every blackbox is a flop of one type; clock/reset nets feed flop pins only"]
MAXVARS = 12


def bounds(tier):
    q = tier == "quick"
    return {"unroll_spaces": [[2, 2], [3, 1], [1, 2]] if q else [[2, 2], [3, 2], [1, 3], [2, 3]],
            "unroll_n": 3 if q else 5, "feedthrough": [[2, 1]] if q else [[2, 1], [2, 2], [3, 1]],
            "seq_n": 3 if q else 4}


def jobs(tier, seed):
    n = 16 if tier == "quick" else 96
    js = [{"sub": "unroll", "chunk": i, "of": n} for i in range(n)]
    m = 16 if tier == "quick" else 64
    js += [{"sub": "seq", "chunk": i, "of": m} for i in range(m)]
    js.append({"sub": "unroll", "chunk": 0, "of": n, "hashseed": 1 + seed % 1000, "primary": False})
    js.append({"sub": "seq", "chunk": 0, "of": m, "hashseed": 1 + seed % 1000, "primary": False})
    return js


# --- unroll -----------------------------------------------------------------------------------


def partial_injections(keys, vals):
    keys, vals = sorted(keys), sorted(vals)
    for r in range(0, min(len(keys), len(vals)) + 1):
        for ks in itertools.combinations(keys, r):
            for vs in itertools.permutations(vals, r):
                yield dict(zip(ks, vs))


def unroll_corpus(tier):
    b = bounds(tier)
    for I, G in b["unroll_spaces"]:
        for gates in space.circuits(I, G, min_gates=1):
            yield space.to_desc(I, gates, outputs="gates")
    for I, G in b["feedthrough"]:
        for gates in space.circuits(I, G, max_arity=2, min_gates=1):
            yield space.to_desc(I, gates, outputs="all")
    for gates in space.circuits(0, 2, types=("and", "xor", "not"), max_arity=2, consts=("0", "1"), min_gates=1):
        yield space.to_desc(0, gates, consts=("0", "1"), outputs="sinks")   # no primary input at all


def check_unroll(acc, desc, state_io, n, variant=None):
    import circuitgraph as cg

    case = {"kind": "unroll", "desc": desc, "state_io": state_io, "n": n, "variant": variant}
    c = space.build(desc)
    ins = sorted(c.inputs())
    outs = sorted(c.outputs())
    sins = sorted(state_io.values())
    other = [i for i in ins if i not in sins]
    nv = len(sins) + n * len(other)
    if nv > MAXVARS:
        return None
    acc.transitions += 1
    try:
        c, (uc, io_map) = space.call_with_history(desc, lambda x: cg.tx.unroll(x, n, dict(state_io)), variant)
    except Exception as e:  # noqa: BLE001
        acc.violation("unroll", f"raises:{common.exc_name(e)}", case, repr(e))
        return None
    # variables: initial state, then per-step other inputs
    names = [("s", v) for v in sins] + [("x", i, t) for t in range(n) for i in other]
    full = refsim.full_mask(nv)
    var = {k: refsim.var_mask(j, nv) for j, k in enumerate(names)}
    # reference: iterate c
    ref_out = []
    state = {v: var[("s", v)] for v in sins}
    inv = {v: k for k, v in state_io.items()}
    for t in range(n):
        assign = {i: (var[("x", i, t)], 0) for i in other}
        assign.update({v: (state[v], 0) for v in sins})
        val = refsim.evaluate(c.graph, assign, full)
        ref_out.append({o: val[o][0] for o in outs})
        state = {v: val[inv[v]][0] for v in sins}
    # implementation
    for io in set(ins) | set(outs):
        if io not in io_map or len(io_map[io]) != n:
            acc.violation("unroll", "io_map-shape", case, f"io_map[{io}] = {io_map.get(io)}")
            return None
    want_inputs = {io_map[v][0] for v in sins} | {io_map[i][t] for i in other for t in range(n)}
    if set(uc.inputs()) != want_inputs:
        acc.violation("unroll", "wrong-free-inputs", case,
                      f"inputs {sorted(uc.inputs())}, expected {sorted(want_inputs)}")
        return None
    assign = {io_map[v][0]: (var[("s", v)], 0) for v in sins}
    assign.update({io_map[i][t]: (var[("x", i, t)], 0) for i in other for t in range(n)})
    try:
        val = refsim.evaluate(uc.graph, assign, full)
    except refsim.RefError as e:
        acc.violation("unroll", "result-unevaluable", case, repr(e))
        return None
    for t in range(n):
        for o in outs:
            got = val[io_map[o][t]]
            if got[1] or got[0] != ref_out[t][o]:
                acc.violation("unroll", "wrong-value", dict(case, output=o, step=t),
                              f"io_map[{o}][{t}] differs from running the circuit {t + 1} steps")
                return None
    acc.observe([hex(ref_out[-1][o]) for o in outs])
    acc.outcome("ok")
    return bool(state_io) and n >= 2


def run_unroll(job, acc):
    b = bounds(job["tier"])
    for _idx, desc in space.chunk(unroll_corpus(job["tier"]), job["chunk"], job["of"]):
        c = space.build(desc)
        for sio in partial_injections(c.outputs(), c.inputs()):
            for n in range(1, b["unroll_n"] + 1):
                r = check_unroll(acc, desc, sio, n)
                if r is None:
                    continue
                acc.states += 1
                if r:
                    acc.nontrivial += 1
                if (_idx // job["of"]) % 4 == 0 and n == 2:
                    for v in space.VARIANTS[1:]:
                        acc.states += 1
                        check_unroll(acc, desc, sio, n, variant=v)
        acc.sample({"desc": desc})
        if acc.out_of_time():
            break


# --- sequential ---------------------------------------------------------------------------------

FLOPS = {
    "ff": {"ins": ["clk", "d"], "outs": ["q"], "d": "d", "q": "q", "clk": "clk", "rst": None,
           "ignores": [None, "clk", ["clk"]]},
    "FDR": {"ins": ["CK", "RD", "D"], "outs": ["Q", "QN"], "d": "D", "q": "Q", "clk": "CK", "rst": "RD",
            "ignores": [None, "CK", "RD", "QN", ["CK", "RD", "QN"]]},
    # a scan flop unrolled along its scan path (SD -> Q); its functional data pin D is a suffix of the name SD, so
    # "ignore D" must not touch SD
    "SDFF": {"ins": ["CLK", "D", "SD"], "outs": ["Q"], "d": "SD", "q": "Q", "clk": "CLK", "rst": "D",
             "ignores": [None, "D", ["D"], ["CLK", "D"]]},
}


def seq_corpus(tier):
    """(desc, flop type, flop instance names).  q nets are buffers named q0/q1 driven by the flop."""
    full = tier != "quick"
    nyield = 0
    for ftype in ("ff", "FDR", "SDFF"):
        F = FLOPS[ftype]
        shapes = ((1, 1, 2, space.ALL_GATES, 2), (1, 2, 1, space.ALL_GATES, 3), (2, 1, 1, space.ALL_GATES, 3)) + (
                ((1, 2, 2, ("and", "xor", "not", "nor"), 2),) if full else ())
        if ftype == "SDFF" and not full:
            shapes = ((1, 2, 1, ("and", "xor", "not", "nor"), 2),)
        for nin, nf, G, types, ar in shapes:
            base = nin + nf
            for gates in space.circuits(base, G, types=types, max_arity=ar, min_gates=G):
                nodes_n = base + G
                for dsel in itertools.product(range(nodes_n), repeat=nf):
                    names = (["a", "s_" + F["q"]][:nin]) + [f"q{j}" for j in range(nf)] + [f"g{k}" for k in range(G)]
                    nodes = [[names[i], "input", [], False] for i in range(nin)]
                    nodes += [[f"q{j}", "buf", [], False] for j in range(nf)]
                    for k, (t, fi) in enumerate(gates):
                        nodes.append([f"g{k}", t, [names[f] for f in fi], True])
                    nodes.append([F["clk"].lower() + "_net", "input", [], False])
                    if F["rst"]:
                        nodes.append(["rst_net", "input", [], False])
                    bbs = []
                    for j in range(nf):
                        conn = {F["clk"]: F["clk"].lower() + "_net", F["d"]: names[dsel[j]], F["q"]: f"q{j}"}
                        if F["rst"]:
                            conn[F["rst"]] = "rst_net"
                        bbs.append([f"r{j}", ftype, F["ins"], F["outs"], conn])
                    yield {"name": "seq", "nodes": nodes, "bbs": bbs}, ftype, [f"r{j}" for j in range(nf)]
                    nyield += 1
                    if nyield % 8 == 0:
                        # flop INSTANCES called like nets of the circuit (an output gate, an input): legal, the
                        # registry and the graph are separate name spaces
                        alias = ["g0", "a"][:nf]
                        yield ({"name": "seq", "nodes": nodes, "bbs": [[alias[j]] + list(b[1:]) for j, b in enumerate(bbs)]},
                               ftype, alias)
                    if nf == 2 and not any(f"q{nf - 1}" in fi for _n, _t, fi, _o in nodes) and f"q{nf - 1}" not in [names[x] for x in dsel]:
                        # the last flop's Q pin left unconnected (its q net is used nowhere)
                        bbs2 = [list(x) for x in bbs]
                        bbs2[-1] = bbs2[-1][:4] + [{k: v for k, v in bbs2[-1][4].items() if k != F["q"]}]
                        nodes2 = [x for x in nodes if x[0] != f"q{nf - 1}"]
                        yield {"name": "seq", "nodes": nodes2, "bbs": bbs2}, ftype, [f"r{j}" for j in range(nf)]


def seq_options(ftype, flops, rich):
    F = FLOPS[ftype]
    inits = [None, "0", "1"]
    if len(flops) == 1:
        inits += [{flops[0]: "1"}]
    else:
        inits += [{flops[0]: "1", flops[1]: "0"}, {flops[1]: "1"}]
    if rich:
        return itertools.product((False, True), inits, (True, False), F["ignores"])
    return [(False, None, True, None), (True, "0", False, F["ignores"][1]), (True, inits[3], True, F["ignores"][-1]),
            (False, "1", True, F["ignores"][min(2, len(F["ignores"]) - 1)])]


def check_seq(acc, desc, ftype, flops, opts, n, repeat=False):
    import circuitgraph as cg

    add_out, init, rem_unl, ignore = opts
    init = dict(init) if isinstance(init, dict) else init          # a fresh argument object for this case
    ignore = list(ignore) if isinstance(ignore, list) else ignore
    F = FLOPS[ftype]
    case = {"kind": "seq", "desc": desc, "ftype": ftype, "flops": flops, "n": n,
            "opts": [add_out, dict(init) if isinstance(init, dict) else init, rem_unl, list(ignore) if isinstance(ignore, list) else ignore],
            "repeat": repeat}
    c = space.build(desc)
    init_before = dict(init) if isinstance(init, dict) else init
    if repeat in ("stale", "alias"):
        # the identical call made earlier on the same object: before the circuit's last in-place edit ("stale"),
        # or with its result scrambled by the caller ("alias")
        finish = None
        if repeat == "stale":
            c2, finish = space.build_pre(desc)
            c = c2 if c2 is not None else c
        try:
            first = cg.tx.sequential_unroll(c, n, F["d"], F["q"], ignore_pins=ignore, add_flop_outputs=add_out,
                                            initial_values=init, remove_unloaded=rem_unl)
            if repeat == "alias":
                space.scramble(first)
        except Exception:  # noqa: BLE001
            pass
        if finish is not None:
            finish()
    elif repeat:
        # an earlier call on the SAME circuit object (same BlackBox objects, same initial_values dict) must not matter
        try:
            cg.tx.sequential_unroll(c, 1, F["d"], F["q"], ignore_pins=ignore, initial_values=init)
            if init != init_before:
                acc.violation("seq", "initial_values-argument-modified", case, f"{init_before} -> {init}")
                return None
        except Exception as e:  # noqa: BLE001
            acc.violation("seq", f"first-call-raises:{common.exc_name(e)}", case, repr(e))
            return None
    g = c.graph
    outs = sorted(n_ for n_ in g.nodes if g.nodes[n_].get("output"))
    data_ins = sorted(i for i in c.inputs() if not i.endswith("_net"))
    free_q = []
    initv = {}
    for fl in flops:
        if init is None:
            free_q.append(fl)
        elif isinstance(init, str):
            initv[fl] = init
        elif fl in init:
            initv[fl] = init[fl]
        else:
            free_q.append(fl)
    nv = len(free_q) + n * len(data_ins)
    if nv > MAXVARS:
        return None
    acc.transitions += 1
    try:
        uc, io_map = cg.tx.sequential_unroll(c, n, F["d"], F["q"], ignore_pins=ignore, add_flop_outputs=add_out,
                                             initial_values=init, remove_unloaded=rem_unl)
    except Exception as e:  # noqa: BLE001
        acc.violation("seq", f"raises:{common.exc_name(e)}", case, repr(e))
        return None
    if init != init_before or ignore != case["opts"][3]:
        acc.violation("seq", "argument-object-modified", case, f"initial_values {init_before} -> {init}; ignore_pins {case['opts'][3]} -> {ignore}")
        return None
    names = [("q", fl) for fl in free_q] + [("x", i, t) for t in range(n) for i in data_ins]
    full = refsim.full_mask(nv)
    var = {k: refsim.var_mask(j, nv) for j, k in enumerate(names)}
    # reference: cycle-accurate simulation of the blackbox circuit
    state = {}
    for fl in flops:
        state[fl] = var[("q", fl)] if fl in free_q else (full if initv[fl] == "1" else 0)
    ref_out, ref_d = [], []
    for t in range(n):
        assign = {i: (var[("x", i, t)], 0) for i in data_ins}
        for i in c.inputs():
            if i.endswith("_net"):
                assign[i] = (0, 0)
        for fl in flops:
            for p in F["outs"]:
                assign[f"{fl}.{p}"] = (state[fl], 0) if p == F["q"] else (0, 0)
        val = refsim.evaluate(g, assign, full)
        ref_out.append({o: val[o][0] for o in outs})
        ref_d.append({fl: val[f"{fl}.{F['d']}"][0] for fl in flops})
        state = dict(ref_d[-1])
    # implementation
    for o in outs:
        if o not in io_map or len(io_map[o]) != n:
            acc.violation("seq", "io_map-shape", case, f"io_map[{o}] = {io_map.get(o)}")
            return None
    dkeys = {fl: f"{fl}_{F['d']}" for fl in flops}
    qkeys = {fl: f"{fl}_{F['q']}" for fl in flops}
    for fl in flops:
        for kx in (dkeys[fl], qkeys[fl]):
            if kx not in io_map or len(io_map[kx]) != n:
                acc.violation("seq", "io_map-shape", case, f"io_map[{kx}] = {io_map.get(kx)}")
                return None
    assign = {}
    for fl in free_q:
        assign[io_map[qkeys[fl]][0]] = (var[("q", fl)], 0)
    for i in data_ins:
        if i in io_map:
            for t in range(n):
                assign[io_map[i][t]] = (var[("x", i, t)], 0)
    for i in c.inputs():
        if i.endswith("_net") and i in io_map:
            for t in range(n):
                assign[io_map[i][t]] = (0, 0)
    extra_inputs = set(uc.inputs()) - set(assign)
    if extra_inputs:
        acc.violation("seq", "unexpected-free-inputs", case, sorted(extra_inputs))
        return None
    missing = [k for k in assign if k not in uc.graph or uc.graph.nodes[k].get("type") != "input"]
    needed = [k for k in missing if not (k.split("_cg_unroll_")[0].endswith("_net"))]
    if needed:
        acc.violation("seq", "expected-free-input-missing", case, sorted(needed))
        return None
    try:
        val = refsim.evaluate(uc.graph, {k: v for k, v in assign.items() if k in uc.graph}, full)
    except refsim.RefError as e:
        acc.violation("seq", "result-unevaluable", case, repr(e))
        return None
    for t in range(n):
        for o in outs:
            gv = val[io_map[o][t]]
            if gv[1] or gv[0] != ref_out[t][o]:
                acc.violation("seq", "wrong-value", dict(case, output=o, step=t),
                              f"io_map[{o}][{t}] differs from cycle-accurate simulation")
                return None
        for fl in flops:
            gv = val[io_map[dkeys[fl]][t]]
            if gv[1] or gv[0] != ref_d[t][fl]:
                acc.violation("seq", "wrong-next-state", dict(case, flop=fl, step=t),
                              f"io_map[{dkeys[fl]}][{t}] differs from the D value of cycle {t}")
                return None
    want_outs = {io_map[o][t] for o in outs for t in range(n)}
    if add_out:
        want_outs |= {io_map[dkeys[fl]][t] for fl in flops for t in range(n)}
    if set(uc.outputs()) != want_outs:
        acc.violation("seq", "wrong-output-set", case,
                      f"outputs {sorted(uc.outputs())}, expected {sorted(want_outs)}")
        return None
    ign = [] if ignore is None else [ignore] if isinstance(ignore, str) else list(ignore)
    other_pins = [p for p in F["ins"] + F["outs"] if p not in (F["d"], F["q"])]
    for fl in flops:
        for p in set(ign) | set(other_pins):
            bad = [x for x in uc.graph.nodes if f"{fl}_{p}_" in x + "_" and f"{fl}_{p}" != dkeys[fl] and f"{fl}_{p}" != qkeys[fl]
                   and (x.startswith(f"{fl}_{p}_") or f"_{fl}_{p}" in x) and not x.startswith((f"{dkeys[fl]}_", f"{qkeys[fl]}_"))
                   and f"_{dkeys[fl]}" not in x and f"_{qkeys[fl]}" not in x]
            if bad:
                acc.violation("seq", "ignored-pin-node-present", case, sorted(bad)[:4])
                return None
    acc.observe([hex(ref_out[-1][o]) for o in outs])
    acc.outcome("ok")
    return n >= 2


def run_seq(job, acc):
    b = bounds(job["tier"])
    for idx, (desc, ftype, flops) in space.chunk(seq_corpus(job["tier"]), job["chunk"], job["of"]):
        rich = (idx // job["of"]) % 16 == 0 or job["tier"] != "quick"
        for opts in seq_options(ftype, flops, rich):
            for n in range(1, (b["seq_n"] if rich else 2) + 1):
                r = check_seq(acc, desc, ftype, flops, opts, n)
                if r is None:
                    continue
                acc.states += 1
                if r:
                    acc.nontrivial += 1
                if rich and n == 2:
                    acc.states += 1
                    check_seq(acc, desc, ftype, flops, opts, n, repeat=True)
                    if (idx // job["of"]) % 16 == 0:
                        check_seq(acc, desc, ftype, flops, opts, n, repeat="stale")
                        check_seq(acc, desc, ftype, flops, opts, n, repeat="alias")
        acc.sample({"desc": desc, "ftype": ftype})
        if acc.out_of_time():
            break


def run(job):
    common.setup_paths()
    acc = Acc(job)
    (run_unroll if job["sub"] == "unroll" else run_seq)(job, acc)
    return acc.result()


def replay(case, job):
    common.setup_paths()
    acc = Acc(job)
    if case["kind"] == "unroll":
        check_unroll(acc, case["desc"], case["state_io"], case["n"], variant=case.get("variant"))
    else:
        o = case["opts"]
        check_seq(acc, case["desc"], case["ftype"], case["flops"], (o[0], o[1], o[2], o[3]), case["n"], repeat=case.get("repeat", False))
    return acc.result()
