"""C18 - acyclic_unroll removes cycles and preserves stable states.

Space: every circuit with I inputs and G gates whose fan-in is any non-empty subset of the other nodes
(no self-loops) and that contains a directed cycle; every non-empty output subset of size <= 2; several
PYTHONHASHSEEDs (the feedback heuristic iterates sets and breaks ties by order).
Oracle: brute-force fixed points (refsim.consistent over all nodes); the unrolled circuit is evaluated
over the same 2^|nodes| space with each auxiliary input bound to its cut node.
"""
import itertools

from mcv import common, refgraph, refsim, space
from mcv.common import Acc

ID = "C18"
MECHANISM = ["tx.acyclic_unroll"]
RULE = ("case = (cyclic circuit, output subset); distinct = distinct pair; non-trivial = the circuit has at least one "
        "stable state (so the value clause is not vacuous)")
ASSUMPTIONS = ["an auxiliary input is bound to its cut node by the name c0_aux_in_<node>, falling back to the node whose loads are the auxiliary input's loads"]


def bounds(tier):
    q = tier == "quick"
    return {"spaces": [[0, 2, 3], [0, 3, 2], [1, 2, 3], [2, 2, 3], [1, 3, 2]] if q else [[1, 2, 3], [2, 2, 3], [1, 3, 3], [2, 3, 2], [1, 4, 2]],
            "types_big": ("and", "nor", "xor", "not", "buf")}


def jobs(tier, seed):
    n = 24 if tier == "quick" else 160
    js = [{"sub": "cyclic", "chunk": i, "of": n} for i in range(n)]
    if tier != "quick":
        js += [{"sub": "graph5", "chunk": i, "of": 64, "n": 5} for i in range(64)]
    js += [{"sub": "graph4", "chunk": i, "of": 8, "n": 4} for i in range(8)]
    for hs in (1, 2 + seed % 1000):
        js += [{"sub": "cyclic", "chunk": i, "of": n, "hashseed": hs, "primary": False} for i in range(0, n, 6)]
    return js


def corpus(tier):
    b = bounds(tier)
    for I, G, ar in b["spaces"]:
        types = space.ALL_GATES if G <= 3 and not (I == 2 and G == 3) else b["types_big"]
        for gates in space.cyclic_circuits(I, G, types=types, max_arity=ar):
            yield I, gates


def bind_aux(c, r, aux):
    succ_c = {n: set(c.graph.succ[n]) for n in c.graph.nodes}
    m = {}
    for a in aux:
        f = None
        if a.startswith("c0_aux_in_") and a[len("c0_aux_in_"):] in c.graph:
            f = a[len("c0_aux_in_"):]
        else:
            loads = {x[3:] for x in r.graph.succ[a] if x.startswith("c0_")}
            cands = [n for n in succ_c if succ_c[n] == loads]
            if len(cands) == 1:
                f = cands[0]
        if f is None:
            return None
        m[a] = f
    return m


def check(acc, desc, values=True, repeat=False):
    import circuitgraph as cg

    case = {"kind": "cyclic", "desc": desc, "repeat": repeat}
    c = space.build(desc)
    acc.transitions += 1
    try:
        if case.get("repeat"):
            space.scramble(cg.tx.acyclic_unroll(c))  # an earlier call (its result edited by the caller) on the same object must not matter
            if isinstance(case["repeat"], list):
                u, v, w = case["repeat"]
                c.disconnect(u, v)      # move one edge: same number of nodes and edges, another cycle structure
                c.connect(w, v)
            if case["repeat"] == "edit":
                flip = {"and": "or", "or": "and", "xor": "xnor", "xnor": "xor", "nand": "nor", "nor": "nand", "buf": "not", "not": "buf"}
                for g in sorted(c.graph.nodes):
                    if c.type(g) in flip:
                        c.set_type(g, flip[c.type(g)])   # edit in place, then ask again
                        break
        r = cg.tx.acyclic_unroll(c)
    except Exception as e:  # noqa: BLE001
        acc.violation("cyclic", f"raises:{common.exc_name(e)}", case, repr(e))
        return None
    if refgraph.is_cyclic(refgraph.from_nx(r.graph)):
        acc.violation("cyclic", "result-still-cyclic", case, "")
        return None
    try:
        cg.lint(r)
    except ValueError as e:
        acc.violation("cyclic", "result-not-lint-clean", case, repr(e))
        return None
    if set(r.outputs()) != set(c.outputs()):
        acc.violation("cyclic", "outputs-changed", case, f"{sorted(r.outputs())} vs {sorted(c.outputs())}")
        return None
    if not set(c.inputs()) <= set(r.inputs()):
        acc.violation("cyclic", "original-input-missing", case, sorted(set(c.inputs()) - set(r.inputs())))
        return None
    aux = sorted(set(r.inputs()) - set(c.inputs()))
    binding = bind_aux(c, r, aux)
    if binding is None or len(set(binding.values())) != len(aux):
        acc.violation("cyclic", "aux-inputs-not-one-per-cut-node", case, f"aux inputs {aux}")
        return None
    if not values:
        acc.outcome(f"cut:{len(aux)}")
        acc.observe(aux)
        return True
    nodes = sorted(c.graph.nodes)
    want, _ = refsim.consistent(c.graph, nodes)
    k = len(nodes)
    full = refsim.full_mask(k)
    var = {n: refsim.var_mask(i, k) for i, n in enumerate(nodes)}
    assign = {i: (var[i], 0) for i in c.inputs()}
    assign.update({a: (var[f], 0) for a, f in binding.items()})
    try:
        val = refsim.evaluate(r.graph, assign, full)
    except refsim.RefError as e:
        acc.violation("cyclic", "result-unevaluable", case, repr(e))
        return None
    for o in sorted(c.outputs()):
        bad = (val[o][0] ^ var[o]) & want
        if val[o][1] & want or bad:
            j = (bad & -bad).bit_length() - 1 if bad else 0
            st = {n: (j >> i) & 1 for i, n in enumerate(nodes)}
            acc.violation("cyclic", "stable-state-not-preserved", dict(case, output=o),
                          f"stable state {st}: output {o} of the unrolled circuit is {(val[o][0] >> j) & 1}")
            return None
    acc.observe(hex(want), aux)
    acc.outcome(f"cut:{len(aux)}")
    return bool(want)


def graph_desc(n, edges, order):
    indeg = [0] * n
    for _u, v in edges:
        indeg[v] += 1
    nodes = []
    for i in order:
        t = "input" if indeg[i] == 0 else "buf" if indeg[i] == 1 else ("and" if i % 2 else "xor")
        nodes.append([f"n{i}", t, [f"n{u}" for u, v in edges if v == i], False])
    # output: the highest-numbered non-input node
    for x in sorted(nodes, key=lambda r: r[0], reverse=True):
        if x[1] != "input":
            x[3] = True
            break
    return {"name": "top", "nodes": nodes}


def run_graph5(job, acc):
    """All loop-free digraphs on 5 nodes that contain a cycle (the feedback heuristic depends on the graph
    shape and the node insertion order only), in two insertion orders; thorough: all edge counts."""
    N = job.get("n", 5)
    for _idx, edges in space.chunk(space.digraphs(N), job["chunk"], job["of"]):
        if len(edges) < 2:
            continue
        succ = {i: set() for i in range(N)}
        for u, v in edges:
            succ[u].add(v)
        if not refgraph.is_cyclic(succ):
            continue
        for order in (list(range(N)), list(range(N - 1, -1, -1))):
            desc = graph_desc(N, edges, order)
            acc.states += 1
            if check(acc, desc, values=True):
                acc.nontrivial += 1
        if acc.out_of_time():
            break
    acc.sample({"desc": desc if acc.states else None})


def run(job):
    common.setup_paths()
    acc = Acc(job)
    if job["sub"] in ("graph5", "graph4"):
        run_graph5(job, acc)
        return acc.result()
    for _idx, (I, gates) in space.chunk(corpus(job["tier"]), job["chunk"], job["of"]):
        G = len(gates)
        base = space.to_desc(I, gates, outputs=[])
        succ = {n: set() for n, _t, _f, _o in base["nodes"]}
        for n, _t, fi, _o in base["nodes"]:
            for f in fi:
                succ[f].add(n)
        if not refgraph.is_cyclic(succ):
            continue
        gate_idx = list(range(I, I + G))
        outsets = [[g] for g in gate_idx] + [list(p) for p in itertools.combinations(gate_idx, 2)]
        if I:
            outsets.append([0, gate_idx[-1]])   # an output that is also a primary input
        for outs in outsets:
            desc = space.to_desc(I, gates, outputs=outs)
            acc.states += 1
            if check(acc, desc):
                acc.nontrivial += 1
        if (_idx // job["of"]) % 4 == 1:
            # names that start with the prefixes the transform gives its copies (c0_, c1_, ...; an unrolled circuit
            # that is unrolled again has inputs called c0_aux_in_*) - no generated name actually collides
            ren = {"a": "c1_en", "b": "c0_aux_in_q", "g0": "c2_g", "g1": "c0_"}
            acc.states += 1
            if check(acc, space.rename(desc, ren)):
                acc.nontrivial += 1
        if (_idx // job["of"]) % 4 == 2:
            # names that start with the prefix of the auxiliary inputs, without being one
            acc.states += 1
            if check(acc, space.rename(desc, {"a": "aux_in_sel", "b": "aux_in_q7", "g1": "aux_in_"})):
                acc.nontrivial += 1
        if (_idx // job["of"]) % 4 == 3:
            # bus-bit names next to their flattened spelling (y[0] and y_0_ are two different nets): every name the
            # transform derives from a node name has to stay injective
            acc.states += 1
            if check(acc, space.rename(desc, {"a": "d[0]", "b": "d_0_", "g0": "y[0]", "g1": "y_0_", "g2": "y[1]"})):
                acc.nontrivial += 1
        if (_idx // job["of"]) % 8 == 0:
            acc.states += 2
            check(acc, desc, repeat=True)
            check(acc, desc, repeat="edit")
            c0 = space.build(desc)
            moves = []
            for (u, v) in sorted(c0.graph.edges):
                if c0.graph.nodes[v]["type"] in space.MULTI:
                    for w in sorted(c0.graph.nodes):
                        if w not in (u, v) and w not in c0.graph.pred[v]:
                            moves.append([u, v, w])
            for mv in moves[:6]:
                acc.states += 1
                check(acc, desc, repeat=mv)
        acc.sample({"desc": desc})
        if acc.out_of_time():
            break
    return acc.result()


def replay(case, job):
    common.setup_paths()
    acc = Acc(job)
    check(acc, case["desc"], repeat=case.get("repeat", False))
    return acc.result()
