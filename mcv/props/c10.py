"""C10 - ternary encoding computes Kleene three-valued simulation.

Space: all blackbox-free circuits (I, G) over all 8 gate types at arity 1..4 with constants, each
built in forward and reverse node-insertion order; all 4^I valuations of (input value, input is-X)
in one bit-parallel pass (= all 3^I ternary patterns x both arbitrary binary values under each X).
Oracle: refsim's gate-by-gate Kleene evaluator on the ORIGINAL circuit.
"""
from mcv import common, refsim, space
from mcv.common import Acc

ID = "C10"
MECHANISM = ["tx.ternary"]
RULE = ("case = (circuit, node insertion order); distinct = distinct pair; non-trivial = some node is X for some "
        "pattern while some input is X and the node is not X for another such pattern (controlling values matter)")
ASSUMPTIONS = ["constants 0/1 only (ternary rejects x nodes by design)"]


def bounds(tier):
    q = tier == "quick"
    return {"spaces": [[3, 2, 4], [2, 3, 3], [1, 3, 3]] if q else [[3, 2, 4], [2, 3, 3], [1, 3, 3], [3, 3, 3]],
            "const_spaces": [[2, 2, 3]] if q else [[2, 2, 3], [1, 3, 3], [2, 3, 2]],
            "orders": ["fwd", "rev"]}


def jobs(tier, seed):
    n = 32 if tier == "quick" else 160
    js = [{"sub": "circuits", "chunk": i, "of": n} for i in range(n)]
    js += [{"sub": "twice", "chunk": i, "of": 8} for i in range(8)]
    js.append({"sub": "circuits", "chunk": 0, "of": n, "hashseed": 1 + seed % 1000, "primary": False})
    js.append({"sub": "circuits", "chunk": 1, "of": n, "hashseed": 2 + seed % 1000, "primary": False})
    return js


def corpus(tier):
    b = bounds(tier)
    for I, G, ar in b["spaces"]:
        for gates in space.circuits(I, G, max_arity=ar, min_gates=1 if G <= 2 else G):
            yield space.to_desc(I, gates, outputs="sinks")
    for I, G, ar in b["const_spaces"]:
        for gates in space.circuits(I, G, max_arity=ar, consts=("0", "1"), min_gates=G):
            yield space.to_desc(I, gates, consts=("0", "1"), outputs="sinks")
    # no primary input at all
    for gates in space.circuits(0, 2, types=("and", "xor", "not", "nor"), max_arity=2, consts=("0", "1"), min_gates=1):
        yield space.to_desc(0, gates, consts=("0", "1"), outputs="sinks")
    # outputs that are inputs / constants, wide gates
    for t in space.MULTI:
        for m in (4, 5):
            nodes = [[space.INPUT_NAMES[i], "input", [], i == 0] for i in range(3)] + [["k0", "0", [], True], ["k1", "1", [], False]]
            ops = (["a", "b", "c", "k1", "k0"] if t in ("and", "nand", "xor", "xnor") else ["a", "b", "c", "k0", "k1"])[:m]
            nodes.append(["g0", t, ops, True])
            yield {"name": "top", "nodes": nodes}


def check(acc, desc, order, repeat=False):
    import circuitgraph as cg

    case = {"kind": "ternary", "desc": desc, "order": order, "repeat": repeat}
    c = space.build(desc, order="rev" if order == "rev" else None)
    ins = sorted(c.inputs())
    acc.transitions += 1
    try:
        if repeat:
            space.scramble(cg.tx.ternary(c))  # an earlier call (its result edited by the caller) on the same object must not matter
            if repeat == "edit":
                flip = {"and": "or", "or": "and", "xor": "xnor", "xnor": "xor", "nand": "nor", "nor": "nand", "buf": "not", "not": "buf"}
                for g in sorted(c.graph.nodes):
                    if c.type(g) in flip:
                        c.set_type(g, flip[c.type(g)])
                        break
                ins = sorted(c.inputs())
        t, mapping = cg.tx.ternary(c)
    except Exception as e:  # noqa: BLE001
        acc.violation("ternary", f"raises:{common.exc_name(e)}", case, repr(e))
        return False
    nodes = sorted(c.graph.nodes)
    if set(mapping) != set(nodes):
        acc.violation("ternary", "mapping-keys-wrong", case, f"missing {sorted(set(nodes) - set(mapping))} extra {sorted(set(mapping) - set(nodes))}")
        return False
    for n in nodes:
        if n not in t.graph or mapping[n] not in t.graph:
            acc.violation("ternary", "node-missing-in-result", case, n)
            return False
    want_inputs = set(ins) | {mapping[i] for i in ins}
    if set(t.inputs()) != want_inputs:
        acc.violation("ternary", "wrong-inputs", case, f"{sorted(t.inputs())} vs {sorted(want_inputs)}")
        return False
    # reference: Kleene on c
    try:
        ref, fr, full = refsim.kleene_tables(c.graph, order=ins)
    except refsim.RefError:
        # the ARGUMENT is not a well-formed circuit (only possible in 'twice', when the first application already
        # went wrong - that is judged by the 'circuits' sub-space on the same circuit)
        acc.outcome("argument-unevaluable")
        return False
    k = 2 * len(ins)
    assign = {}
    for i, n in enumerate(ins):
        assign[n] = (refsim.var_mask(2 * i, k), 0)
        assign[mapping[n]] = (refsim.var_mask(2 * i + 1, k), 0)
    try:
        val = refsim.evaluate(t.graph, assign, full)
    except refsim.RefError as e:
        acc.violation("ternary", "result-unevaluable", case, repr(e))
        return False
    nt = False
    anyx = 0
    for i in range(len(ins)):
        anyx |= refsim.var_mask(2 * i + 1, k)
    for n in nodes:
        rv, rx = ref[n]
        gv, gx = val[mapping[n]]
        if gx or val[n][1]:
            acc.violation("ternary", "result-has-x", case, n)
            return False
        if gv != rx:
            d = gv ^ rx
            j = (d & -d).bit_length() - 1
            pat = {ins[i]: ("X" if (j >> (2 * i + 1)) & 1 else (j >> (2 * i)) & 1) for i in range(len(ins))}
            mode = "companion-1-but-kleene-binary" if (gv >> j) & 1 else "companion-0-but-kleene-x"
            acc.violation("ternary", mode, dict(case, node=n), f"node {n}, pattern {pat}")
            return False
        if (val[n][0] ^ rv) & ~rx & full:
            d = (val[n][0] ^ rv) & ~rx & full
            j = (d & -d).bit_length() - 1
            acc.violation("ternary", "binary-value-differs-from-kleene", dict(case, node=n), f"node {n}, valuation index {j}")
            return False
        if rx & anyx and (anyx & ~rx & full):
            nt = nt or (rx != anyx)
    acc.observe([hex(ref[n][1]) for n in nodes])
    acc.outcome("ok")
    return nt


def run_twice(job, acc):
    """ternary applied to the output of ternary: the argument now carries nets with exactly the names the
    transform synthesises (a_X, g0_x_in_fi, a_is_0, a_not_x ...), which it must uniquify around."""
    import circuitgraph as cg
    from mcv import snapshot

    def small():
        for gates in space.circuits(2, 2, max_arity=2, min_gates=1):
            yield space.to_desc(2, gates, outputs="sinks")
        for gates in space.circuits(1, 2, max_arity=2, consts=("0", "1"), min_gates=2):
            yield space.to_desc(1, gates, consts=("0", "1"), outputs="sinks")

    for _idx, desc in space.chunk(small(), job["chunk"], job["of"]):
        try:
            t1, _m = cg.tx.ternary(space.build(desc))
        except Exception:  # noqa: BLE001
            continue  # judged by the 'circuits' sub-space
        d1 = snapshot.to_desc(t1)
        d1 = {"name": d1["name"], "nodes": d1["nodes"]}
        acc.states += 1
        if check(acc, d1, "fwd"):
            acc.nontrivial += 1
        acc.sample({"desc": d1})
        if acc.out_of_time():
            break


def run(job):
    common.setup_paths()
    acc = Acc(job)
    if job["sub"] == "twice":
        run_twice(job, acc)
        return acc.result()
    for _idx, desc in space.chunk(corpus(job["tier"]), job["chunk"], job["of"]):
        for order in ("fwd", "rev"):
            acc.states += 1
            if check(acc, desc, order):
                acc.nontrivial += 1
        if (_idx // job["of"]) % 8 == 0:
            acc.states += 2
            check(acc, desc, "fwd", repeat=True)
            check(acc, desc, "fwd", repeat="edit")
        acc.sample({"desc": desc})
        if acc.out_of_time():
            break
    return acc.result()


def replay(case, job):
    common.setup_paths()
    acc = Acc(job)
    check(acc, case["desc"], case.get("order", "fwd"), repeat=case.get("repeat", False))
    return acc.result()
