"""C17 - supergate decomposition covers the circuit with independent-input blocks.

Sub-spaces
  struct : all blackbox-free circuits with fan-in <= 2 (there limit_fanin(c, 2) is the identity, so the
           structural clauses can be judged against c itself): single-output and multi-output (sinks).
  wide   : circuits with gates of fan-in 3..4: single-output elements, cover of every original gate, and
           the super-circuit equivalence.
  super  : construct_supercircuit=True on every single-output circuit: hierarchical evaluation with each
           supergate blackbox replaced by its supergate equals the original function.
Oracle: refgraph closure for disjointness / order / cover; refsim for equivalence.
"""
import itertools

from mcv import common, refgraph, refsim, space
from mcv.common import Acc

ID = "C17"
MECHANISM = ["tx.supergates", "tx.limit_fanin", "tx.subcircuit"]
RULE = ("case = (circuit, output policy, form); distinct = distinct tuple; non-trivial = the circuit has reconvergent "
        "fan-out or more than one supergate is returned")
ASSUMPTIONS = ["structural clauses are judged on circuits with fan-in <= 2 (the fan-in-limited circuit is then the circuit itself)",
               "disjointness is reflexive: ({i} u tfi(i)) and ({j} u tfi(j)) are disjoint for distinct supergate inputs i, j",
               "gates outside every output cone (unloaded logic) are allowed and need not be covered"]

EXAMPLE = {"name": "seth_agrawal", "nodes": [
    ["i1", "input", [], False], ["i2", "input", [], False], ["i3", "input", [], False], ["i4", "input", [], False],
    ["i5", "input", [], False],
    ["g1", "nand", ["i1", "i2"], False], ["g2", "nor", ["i2", "i3"], False], ["g3", "nand", ["g1", "g2"], False],
    ["g4", "not", ["g3"], False], ["g5", "nand", ["g3", "i4"], False], ["g6", "nor", ["g4", "g5"], False],
    ["g7", "nand", ["i4", "i5"], False], ["g8", "xor", ["g6", "g7"], False], ["g9", "nand", ["g7", "i5"], False],
    ["g10", "nor", ["g8", "g9"], True]]}


def bounds(tier):
    q = tier == "quick"
    return {"struct": [[2, 3, ("nand", "nor", "xor", "not", "and", "buf")], [3, 3, ("nand", "nor", "xor", "not")]] if q
            else [[2, 3, space.ALL_GATES], [3, 3, ("nand", "nor", "xor", "not", "or")], [2, 4, ("nand", "xor", "not")], [4, 3, ("nand", "nor", "not")]],
            "wide": [[3, 2, 4]] if q else [[3, 2, 4], [4, 2, 4], [3, 3, 3]],
            "shared": [4, 4, ("and", "not")] if q else [4, 4, ("and", "not", "xor")]}


def jobs(tier, seed):
    n = 48 if tier == "quick" else 192
    js = [{"sub": "struct", "chunk": i, "of": n} for i in range(n)]
    m = 8 if tier == "quick" else 48
    js += [{"sub": "wide", "chunk": i, "of": m} for i in range(m)]
    js.append({"sub": "struct", "chunk": 0, "of": n, "hashseed": 1 + seed % 1000, "primary": False})
    js += [{"sub": "wide", "chunk": i, "of": m, "hashseed": hs, "primary": False} for i in range(0, m, max(1, m // 8))
           for hs in (1 + seed % 1000, 3, 5)]
    return js


def live_only(desc):
    """Keep only circuits in which every gate reaches an output (lint-clean, no dead logic)."""
    succ = {n: set() for n, _t, _f, _o in desc["nodes"]}
    for n, _t, fi, _o in desc["nodes"]:
        for f in fi:
            succ[f].add(n)
    outs = {n for n, _t, _f, o in desc["nodes"] if o}
    for n, t, _f, _o in desc["nodes"]:
        if t != "input" and n not in outs and not (refgraph.reach(succ, n) & outs):
            return False
    return True


def check_list(acc, desc, structural, repeat=False):
    import circuitgraph as cg

    case = {"kind": "list", "desc": desc, "structural": structural, "repeat": repeat}
    c = space.build(desc)
    acc.transitions += 1
    try:
        if case.get("repeat"):
            space.scramble(cg.tx.supergates(c))  # an earlier call (its result edited by the caller) on the same object must not matter
            if case["repeat"] == "edit":
                flip = {"and": "or", "or": "and", "xor": "xnor", "xnor": "xor", "nand": "nor", "nor": "nand", "buf": "not", "not": "buf"}
                for g in sorted(c.graph.nodes):
                    if c.type(g) in flip:
                        c.set_type(g, flip[c.type(g)])   # edit in place, then ask again
                        break
        sgs = cg.tx.supergates(c)
    except Exception as e:  # noqa: BLE001
        acc.violation("list", f"raises:{common.exc_name(e)}", case, repr(e))
        return None
    succ = refgraph.from_nx(c.graph)
    pred = refgraph.invert(succ)
    tfi = refgraph.closure(pred)
    pis = set(c.inputs())
    outs = set(c.outputs())
    cone = set(outs)
    for o in outs:
        cone |= tfi[o]
    gates = {n for n in cone if c.graph.nodes[n]["type"] in space.ALL_GATES}
    covered = set()
    earlier = set()
    seen_sig = {}
    for idx, sg in enumerate(sgs):
        so = set(sg.outputs())
        if len(so) != 1:
            acc.violation("list", "not-single-output", case, f"supergate {idx} outputs {sorted(so)}")
            return None
        sin = set(sg.inputs())
        internal = set(sg.nodes()) - sin
        covered |= internal
        if structural:
            for i in sin - pis:
                if i not in earlier:
                    acc.violation("list", "not-topological", case, f"input {i} of supergate {sorted(so)} is not produced by an earlier supergate")
                    return None
            for n in sg.nodes():
                if n not in c.graph:
                    acc.violation("list", "foreign-node", case, n)
                    return None
            for n in internal:
                if sg.graph.nodes[n]["type"] != c.graph.nodes[n]["type"] or set(sg.graph.pred[n]) != pred[n]:
                    acc.violation("list", "internal-wiring-differs", case, f"node {n} in supergate {sorted(so)}")
                    return None
            induced = {(u, v) for u in sg.nodes() for v in succ[u] if v in sg.graph}
            if set(sg.graph.edges) != induced:
                acc.violation("list", "edges-not-induced", case, f"supergate {sorted(so)}")
                return None
            sl = sorted(sin)
            for a in range(len(sl)):
                for b in range(a + 1, len(sl)):
                    if ({sl[a]} | tfi[sl[a]]) & ({sl[b]} | tfi[sl[b]]):
                        acc.violation("list", "inputs-share-fanin", case,
                                      f"supergate {sorted(so)}: inputs {sl[a]} and {sl[b]} have common transitive fan-in")
                        return None
        earlier |= internal
        # all supergates are sub-circuits of ONE fan-in-limited circuit: a node that is internal to two of them has
        # one type and one fan-in
        for n in internal:
            sig = (sg.graph.nodes[n].get("type"), frozenset(sg.graph.pred[n]))
            if seen_sig.setdefault(n, sig) != sig:
                acc.violation("list", "supergates-disagree-on-node", case,
                              f"node {n}: {seen_sig[n][0]}{sorted(seen_sig[n][1])} in one supergate, {sig[0]}{sorted(sig[1])} in another")
                return None
    if not gates <= covered:
        acc.violation("list", "gate-not-covered", case, sorted(gates - covered))
        return None
    acc.observe(sorted(sorted(sg.outputs()) for sg in sgs))
    acc.outcome(f"supergates:{min(len(sgs), 4)}")
    return len(sgs) > 1 or bool(refgraph.reconvergent(succ))


def hier_eval(superc, sg_map, order):
    """Evaluate the super-circuit with every blackbox replaced by its supergate (never flattened)."""
    assign, full = refsim.free_assign(order)
    g = superc.graph
    bbout = {n: (0, 0) for n in g.nodes if g.nodes[n].get("type") == "bb_output"}
    for _ in range(len(sg_map) + 2):
        a = dict(assign)
        a.update(bbout)
        val = refsim.evaluate(g, a, full)
        new = {}
        for inst, sg in sg_map.items():
            (o,) = tuple(sg.outputs())
            sa = {}
            for i in sg.inputs():
                sa[i] = val[f"{inst}.{i}"]
            sv = refsim.evaluate(sg.graph, sa, full)
            new[f"{inst}.{o}"] = sv[o]
        if new == bbout:
            return val, full
        bbout = new
    raise refsim.RefError("hierarchical evaluation did not converge")


def check_super(acc, desc, variant=None):
    import circuitgraph as cg

    case = {"kind": "super", "desc": desc, "variant": variant}
    c = space.build(desc)
    (out,) = tuple(c.outputs())
    acc.transitions += 1
    try:
        c, (superc, sg_map) = space.call_with_history(desc, lambda x: cg.tx.supergates(x, construct_supercircuit=True), variant)
    except Exception as e:  # noqa: BLE001
        acc.violation("super", f"raises:{common.exc_name(e)}", case, repr(e))
        return
    ins = sorted(c.inputs())
    if set(superc.inputs()) != set(ins) or set(superc.outputs()) != {out}:
        acc.violation("super", "io-differs", case, f"{sorted(superc.inputs())} / {sorted(superc.outputs())}")
        return
    if set(superc.blackboxes) != set(sg_map):
        acc.violation("super", "map-keys-differ", case, f"{sorted(superc.blackboxes)} vs {sorted(sg_map)}")
        return
    t0, _fr, _full = refsim.tables(c.graph, order=ins)
    try:
        val, full = hier_eval(superc, sg_map, ins)
    except (refsim.RefError, KeyError, ValueError) as e:
        acc.violation("super", "supercircuit-unevaluable", case, repr(e))
        return
    if val[out][1] or val[out][0] != t0[out]:
        acc.violation("super", "not-equivalent", case, f"output {out} of the refilled super-circuit differs")
        return
    acc.outcome("super-ok")


def descs_struct(tier):
    for I, G, types in bounds(tier)["struct"]:
        for gates in space.circuits(I, G, types=types, max_arity=2, min_gates=1):
            d = space.to_desc(I, gates, outputs="sinks")
            yield d
            n_out = sum(1 for x in d["nodes"] if x[3])
            if n_out > 1:
                # single-output variant; the other sinks become unloaded logic next to the cone (legal, lint-clean)
                yield space.to_desc(I, gates, outputs=[I + len(gates) - 1])
    yield EXAMPLE
    # outputs whose cone is a single node: an input that is an output, a constant that is an output
    for gates in space.circuits(2, 2, types=("nand", "xor", "not"), max_arity=2, min_gates=1):
        yield space.to_desc(2, gates, outputs="all")
    for gates in space.circuits(1, 1, types=("nand", "xor", "not"), max_arity=2, consts=("0", "1"), min_gates=1):
        yield space.to_desc(1, gates, consts=("0", "1"), outputs="all")
    # the single output IS a primary input
    yield {"name": "ionly", "nodes": [["a", "input", [], True]]}
    yield {"name": "io2", "nodes": [["a", "input", [], True], ["b", "input", [], False]]}
    yield {"name": "io3", "nodes": [["a", "input", [], True], ["b", "input", [], False], ["g", "and", ["a", "b"], False]]}
    # the single output IS a constant (the super-circuit form must still reproduce it)
    for k in ("0", "1"):
        yield {"name": "konly", "nodes": [["k", k, [], True]]}
        yield {"name": "kout", "nodes": [["a", "input", [], False], ["k", k, [], True]]}
        yield {"name": "kout2", "nodes": [["a", "input", [], False], ["k", k, [], True], ["g", "not", ["a"], False]]}
    # x constants inside output cones
    for gates in space.circuits(1, 2, types=("nand", "nor", "xor", "not", "and"), max_arity=2, consts=("x",), min_gates=1):
        d = space.to_desc(1, gates, consts=("x",), outputs="sinks")
        if live_only(d) and not any(x[1] == "x" and x[3] for x in d["nodes"]):
            yield d
    # constants inside output cones
    for gates in space.circuits(2, 2, types=("nand", "nor", "xor", "not", "and"), max_arity=2, consts=("0", "1"), min_gates=1):
        d = space.to_desc(2, gates, consts=("0", "1"), outputs="sinks")
        if live_only(d) and not any(x[1] in ("0", "1") and x[3] for x in d["nodes"]):
            yield d
    for gates in space.circuits(0, 3, types=("nand", "xor", "not"), max_arity=2, consts=("0", "1"), min_gates=1):
        d = space.to_desc(0, gates, consts=("0", "1"), outputs="sinks")   # no primary input at all
        if not any(x[1] in ("0", "1") and x[3] for x in d["nodes"]):
            yield d
    # two output cones sharing a gate n that can be internal to one supergate and an input of another
    for t1, t2, t3, t4, t5 in itertools.product(("and", "xor"), repeat=5):
        for x in ("a", "b", "p", "t"):
            for y in ("t", "a", "p"):
                for extra_out in ((), ("n",), ("a",)):
                    nodes = [[i, "input", [], False] for i in "pqrst"]
                    nodes += [["a", t1, ["p", "q"], "a" in extra_out], ["b", t2, ["r", "s"], False], ["n", t3, ["a", "b"], "n" in extra_out],
                              ["o1", t4, ["n", x], True], ["o2", t5, ["n", y], True]]
                    yield {"name": "share", "nodes": nodes}
    # two cones over one shared gate g2, each cone with its own reconvergent input (x through h in the first,
    # y through g1 in the second): the same gates end up INSIDE different supergates of the two cones
    tt = ("nand", "nor", "xor") if tier == "quick" else ("and", "or", "nand", "nor", "xor")
    stages = (None, "buf", "not")
    for th, t2, t3, t4 in itertools.product(tt, repeat=4):
        for g1 in (["not", ["y"]], ["buf", ["y"]], ["nand", ["y", "k1"]], ["or", ["y", "k0"]]):
            for sa, sb in itertools.product(stages, repeat=2):
                nodes = [["x", "input", [], False], ["y", "input", [], False], ["z", "input", [], False]]
                if "k1" in g1[1]:
                    nodes.append(["k1", "1", [], False])
                if "k0" in g1[1]:
                    nodes.append(["k0", "0", [], False])
                nodes += [["h", th, ["x", "z"], False], ["g1", g1[0], g1[1], False], ["g2", t2, ["g1", "h"], False],
                          ["g3", t3, ["g2", "x"], sa is None], ["g9", t4, ["g2", "y"], sb is None]]
                if sa:
                    nodes.append(["oa", sa, ["g3"], True])
                if sb:
                    nodes.append(["ob", sb, ["g9"], True])
                yield {"name": "cones2", "nodes": nodes}
    # several outputs sharing logic: every gate is an output
    I, G, types = bounds(tier)["shared"]
    for gates in space.circuits(I, G, types=types, max_arity=2, min_gates=G):
        yield space.to_desc(I, gates, outputs="gates")


def descs_wide(tier):
    # a gate with more than two inputs shared by two or three outputs (the helper gates that limit its fan-in must
    # be the same ones in every cone)
    tt = ("and", "nor", "xor") if tier == "quick" else ("and", "or", "nand", "nor", "xor", "xnor")
    for tw, t1, t2 in itertools.product(tt, repeat=3):
        for width in (3, 4):
            ins = [f"in{j}" for j in range(width)]
            for third in (False, True):
                nodes = [[x, "input", [], False] for x in ins]
                nodes += [["w", tw, ins, False], ["o1", t1, ["w", ins[0]], True], ["o2", t2, ["w", ins[1]], True]]
                if third:
                    nodes.append(["o3", "not", ["w"], True])
                yield {"name": "sharedwide", "nodes": nodes}
    for I, G, ar in bounds(tier)["wide"]:
        for gates in space.circuits(I, G, max_arity=ar, min_gates=1):
            if any(len(fi) > 2 for _t, fi in gates):
                yield space.to_desc(I, gates, outputs="sinks")


def run(job):
    common.setup_paths()
    acc = Acc(job)
    structural = job["sub"] == "struct"
    src = descs_struct(job["tier"]) if structural else descs_wide(job["tier"])
    for _idx, desc in space.chunk(src, job["chunk"], job["of"]):
        acc.states += 1
        if check_list(acc, desc, structural):
            acc.nontrivial += 1
        has_x = any(x[1] == "x" for x in desc["nodes"])   # equivalence of the super-circuit is judged on binary circuits
        if sum(1 for x in desc["nodes"] if x[3]) == 1 and not has_x:
            check_super(acc, desc)
        if (_idx // job["of"]) % 16 == 0:
            if sum(1 for x in desc["nodes"] if x[3]) == 1 and not has_x:
                for v in space.VARIANTS[1:]:
                    check_super(acc, desc, variant=v)
            check_list(acc, desc, structural, repeat=True)
            check_list(acc, desc, structural, repeat="edit")
        acc.sample({"desc": desc})
        if acc.out_of_time():
            break
    return acc.result()


def replay(case, job):
    common.setup_paths()
    acc = Acc(job)
    if case["kind"] == "list":
        check_list(acc, case["desc"], case["structural"], repeat=case.get("repeat", False))
    else:
        check_super(acc, case["desc"], variant=case.get("variant"))
    return acc.result()
