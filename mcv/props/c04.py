"""C04 - miter output is 1 exactly when the compared circuits differ.

Space: pairs (c0, c1) with c0 from the enumerated circuit space and c1 in {omitted, copy, every
single-gate type mutation (with and without the mutated gate being an output), De-Morgan
restructurings, every circuit of a smaller space}, x every non-empty subset of shared startpoints
(and the default) x every non-empty subset of shared endpoints (and the default).
Oracle: two independent refsim runs of c0 and c1 (tied startpoints share a variable, untied ones get
one variable per copy); `sat` table of the miter must equal OR_e (v0[e] xor v1[e]);
solve(m, {sat: True}) is False iff that table is all-zero (both solver polarities).
"""
import itertools

from mcv import common, refsim, satref, space
from mcv.common import Acc

ID = "C04"
MECHANISM = ["tx.miter", "circuit.add_subcircuit", "sat.solve"]
RULE = ("case = (c0, c1 or omitted, startpoints arg, endpoints arg); distinct = distinct tuple; non-trivial = the "
        "expected sat table is neither all-zero nor all-one, or the two circuits are structurally different but equivalent")
ASSUMPTIONS = ["blackbox-free lint-clean circuits; names that start with the miter's prefixes (c0_, c1_, dif_, sat_) are included, exact clashes with the miter's own node names are not",
               "an explicitly empty startpoints/endpoints argument means 'default' in the API, so only non-empty subsets are passed"]

MUT = {"and": ["nand", "or", "nor", "xor", "xnor"], "nand": ["and", "or", "xnor"], "or": ["nor", "and", "xor"],
       "nor": ["or", "nand", "xnor"], "xor": ["xnor", "or", "and"], "xnor": ["xor", "nor", "nand"],
       "buf": ["not"], "not": ["buf"]}


def bounds(tier):
    q = tier == "quick"
    return {"c0": [[2, 2, None], [1, 2, None]] if q else [[2, 2, None], [1, 2, None], [3, 2, None], [2, 3, ("and", "xor", "not")]], "c1_small": [2, 1],
            "feedthrough": [2, 1] if q else [2, 2]}


def jobs(tier, seed):
    n = 31 if tier == "quick" else 96
    js = [{"sub": "pairs", "chunk": i, "of": n} for i in range(n)]
    js.append({"sub": "pairs", "chunk": 0, "of": n, "hashseed": 1 + seed % 1000, "primary": False})
    return js


def nonempty_subsets(xs):
    xs = sorted(xs)
    for r in range(1, len(xs) + 1):
        for s in itertools.combinations(xs, r):
            yield list(s)


def demorgan(desc):
    """Equivalent restructurings: one multi-input gate rewritten through its dual."""
    dual = {"and": "nor", "or": "nand", "nand": "or", "nor": "and"}
    for i, (n, t, fi, o) in enumerate(desc["nodes"]):
        if t in dual and len(fi) >= 1:
            nodes = [list(x) for x in desc["nodes"]]
            inv = []
            extra = []
            for f in fi:
                extra.append([f"dm_{n}_{f}", "not", [f], False])
                inv.append(f"dm_{n}_{f}")
            nodes[i] = [n, dual[t], inv, o]
            yield {"name": "c1", "nodes": nodes[:i] + extra + nodes[i:]}
        if t in ("buf",) and len(fi) == 1:
            nodes = [list(x) for x in desc["nodes"]]
            extra = [[f"dn_{n}", "not", [fi[0]], False]]
            nodes[i] = [n, "not", [f"dn_{n}"], o]
            yield {"name": "c1", "nodes": nodes[:i] + extra + nodes[i:]}


def c1_variants(desc, small, full):
    """(label, c1 desc or None)."""
    yield "omitted", None
    yield "copy", dict(desc, name="c1")
    for i, (n, t, fi, o) in enumerate(desc["nodes"]):
        for t2 in MUT.get(t, []):
            if t2 in ("buf", "not") and len(fi) != 1:
                continue
            nodes = [list(x) for x in desc["nodes"]]
            nodes[i][1] = t2
            yield f"mut:{n}:{t2}", {"name": "c1", "nodes": nodes}
            if o and any(x[3] for j, x in enumerate(nodes) if j != i):
                nodes2 = [list(x) for x in nodes]
                nodes2[i][3] = False
                yield f"mut-hidden:{n}:{t2}", {"name": "c1", "nodes": nodes2}
    for k, d in enumerate(demorgan(desc)):
        yield f"demorgan:{k}", d
    for k, d in enumerate(small):
        if full or k % 3 == 0:
            yield f"small:{k}", d


def var_table(T, U0, U1):
    order = [("t", n) for n in T] + [("0", n) for n in U0] + [("1", n) for n in U1]
    k = len(order)
    return {key: refsim.var_mask(i, k) for i, key in enumerate(order)}, refsim.full_mask(k)


def check_miter(acc, d0, d1, sp_arg, ep_arg, label, solve_too=True):
    import circuitgraph as cg

    case = {"kind": "miter", "c0": d0, "c1": d1, "startpoints": sp_arg, "endpoints": ep_arg, "c1_label": label}
    c0 = space.build(d0)
    c1 = space.build(d1) if d1 is not None else None
    e1 = c1 if c1 is not None else c0
    in0, in1 = set(c0.inputs()), set(e1.inputs())
    out0 = {n for n in c0.graph.nodes if c0.graph.nodes[n].get("output")}
    out1 = {n for n in e1.graph.nodes if e1.graph.nodes[n].get("output")}
    T = sorted(sp_arg) if sp_arg else sorted(in0 & in1)
    E = sorted(ep_arg) if ep_arg else sorted(out0 & out1)
    if not E:
        acc.outcome("no-shared-endpoints")
        return None
    U0 = sorted(in0 - set(T))
    U1 = sorted(in1 - set(T))
    var, full = var_table(T, U0, U1)
    a0 = {n: (var[("t", n)] if n in T else var[("0", n)], 0) for n in in0}
    a1 = {n: (var[("t", n)] if n in T else var[("1", n)], 0) for n in in1}
    v0 = refsim.evaluate(c0.graph, a0, full)
    v1 = refsim.evaluate(e1.graph, a1, full)
    want = 0
    for e in E:
        want |= v0[e][0] ^ v1[e][0]
    acc.transitions += 1
    kw = {}
    if sp_arg:
        kw["startpoints"] = set(sp_arg)
    if ep_arg:
        kw["endpoints"] = set(ep_arg)
    try:
        if label in ("copy", "omitted"):
            # an earlier call with the SAME argument objects (circuits, startpoint / endpoint sets) must not matter
            cg.tx.miter(c0, c1, **kw) if c1 is not None else cg.tx.miter(c0, **kw)
            if (sp_arg and kw["startpoints"] != set(sp_arg)) or (ep_arg and kw["endpoints"] != set(ep_arg)):
                acc.violation("miter", "argument-set-modified", case, f"startpoints/endpoints argument changed to {kw}")
                return None
        m = cg.tx.miter(c0, c1, **kw) if c1 is not None else cg.tx.miter(c0, **kw)
    except Exception as e:  # noqa: BLE001
        acc.violation("miter", f"miter-raises:{common.exc_name(e)}", case, repr(e))
        return None
    if set(m.inputs()) != set(T):
        acc.violation("miter", "wrong-inputs", case, f"inputs {sorted(m.inputs())}, tied startpoints {T}")
        return None
    if set(m.outputs()) != {"sat"}:
        acc.violation("miter", "wrong-outputs", case, f"outputs {sorted(m.outputs())}")
        return None
    am = {n: (var[("t", n)], 0) for n in T}
    am.update({f"c0_{n}": (var[("0", n)], 0) for n in U0})
    am.update({f"c1_{n}": (var[("1", n)], 0) for n in U1})
    try:
        vm = refsim.evaluate(m.graph, am, full)
        got, gx = vm["sat"]
    except (refsim.RefError, KeyError) as e:
        acc.violation("miter", "miter-unevaluable", case, repr(e))
        return None
    acc.observe(hex(want))
    acc.outcome("equal" if want == 0 else "always-differ" if want == full else "sometimes-differ")
    if gx or got != want:
        diff = got ^ want
        j = (diff & -diff).bit_length() - 1 if diff else -1
        acc.violation("miter", "sat-table-wrong", case, f"sat is {(got >> j) & 1} at valuation index {j} of {sorted(var)}")
        return want
    if solve_too:
        for pol in (("first",), ("last",)):
            satref.set_policy(pol)
            acc.transitions += 1
            try:
                r = cg.sat.solve(m, {"sat": True})
            except Exception as e:  # noqa: BLE001
                acc.violation("miter", f"solve-raises:{common.exc_name(e)}", case, repr(e))
                continue
            finally:
                satref.set_policy(("first",))
            if (r is False) != (want == 0):
                acc.violation("miter", "solve-verdict-wrong", case, f"solve -> {r is not False}, circuits differ -> {want != 0}")
            elif r is not False and not r.get("sat"):
                acc.violation("miter", "solve-model-sat-false", case, str(r))
    nt = want not in (0, full) or (want == 0 and label not in ("omitted", "copy"))
    return nt


def c0_space(tier):
    b = bounds(tier)
    for I, G, types in b["c0"]:
        for gates in space.circuits(I, G, types=types or space.ALL_GATES, max_arity=3 if types is None else 2, min_gates=1):
            yield space.to_desc(I, gates, outputs="gates", name="c0")
    for gates in space.circuits(1, 2, types=("and", "xor", "not"), max_arity=2, consts=("0", "1"), min_gates=2):
        yield space.to_desc(1, gates, consts=("0", "1"), outputs="gates", name="c0")
    for gates in space.circuits(0, 2, types=("and", "xor", "not"), max_arity=2, consts=("0", "1"), min_gates=1):
        yield space.to_desc(0, gates, consts=("0", "1"), outputs="gates", name="c0")   # no primary input at all
    for gates in space.circuits(2, 2, types=("and", "xor", "not"), max_arity=2, min_gates=2):
        d = space.to_desc(2, gates, outputs="gates", name="c0")
        yield space.rename(d, {"a": "c0_a", "b": "dif_b", "g0": "c1_g", "g1": "sat_o"})   # names with the miter's own prefixes
    I, G = b["feedthrough"]
    for gates in space.circuits(I, G, max_arity=2, min_gates=1):
        yield space.to_desc(I, gates, outputs="all", name="c0")


def run(job):
    common.setup_paths()
    acc = Acc(job)
    tier = job["tier"]
    full = tier != "quick"
    I, G = bounds(tier)["c1_small"]
    small = [space.to_desc(I, g, outputs="gates", name="c1") for g in space.circuits(I, G, min_gates=1)]
    for _idx, d0 in space.chunk(c0_space(tier), job["chunk"], job["of"]):
        acc.states += 1
        nt_any = False
        for label, d1 in c1_variants(d0, small, full):
            c0 = space.build(d0)
            e1 = space.build(d1) if d1 is not None else c0
            shared_in = sorted(set(c0.inputs()) & set(e1.inputs()))
            shared_out = sorted(set(c0.outputs()) & set(e1.outputs()))
            rich = label in ("omitted", "copy") or label.startswith("mut") or full
            sps = [None] + (list(nonempty_subsets(shared_in)) if rich else [shared_in[:1]] if shared_in else [])
            eps = [None] + (list(nonempty_subsets(shared_out)) if rich else [shared_out[:1]] if shared_out else [])
            for sp in sps:
                for ep in eps:
                    nt = check_miter(acc, d0, d1, sp, ep, label)
                    nt_any = nt_any or bool(nt)
        if nt_any:
            acc.nontrivial += 1
        acc.sample({"c0": d0})
        if acc.out_of_time():
            break
    return acc.result()


def replay(case, job):
    common.setup_paths()
    acc = Acc(job)
    check_miter(acc, case["c0"], case["c1"], case["startpoints"], case["endpoints"], case.get("c1_label", "?"))
    return acc.result()
