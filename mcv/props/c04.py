"""C04 - miter output is 1 exactly when the compared circuits differ.

Space: pairs (c0, c1) with c0 from the enumerated circuit space and c1 in {omitted, copy, every
single-gate type mutation (with and without the mutated gate being an output), De-Morgan
restructurings, every circuit of a smaller space}, x every non-empty subset of shared startpoints
(and the default) x every non-empty subset of shared endpoints (and the default).
Oracle: two independent refsim runs of c0 and c1 (tied startpoints share a variable, untied ones get
one variable per copy); `sat` table of the miter must equal OR_e (v0[e] xor v1[e]);
solve(m, {sat: True}) is False iff that table is all-zero (both solver polarities).
"""
import itertools

from mcv import common, refsim, satref, space
from mcv.common import Acc

ID = "C04"
MECHANISM = ["tx.miter", "circuit.add_subcircuit", "sat.solve"]
RULE = ("case = (c0, c1 or omitted, startpoints arg, endpoints arg); distinct = distinct tuple; non-trivial = the "
        "expected sat table is neither all-zero nor all-one, or the two circuits are structurally different but equivalent")
ASSUMPTIONS = ["blackbox-free lint-clean circuits; names that start with the miter's prefixes (c0_, c1_, dif_, sat_) are included, exact clashes with the miter's own node names are not",
               "an explicitly empty startpoints/endpoints argument means 'default' in the API, so only non-empty subsets are passed"]

MUT = {"and": ["nand", "or", "nor", "xor", "xnor"], "nand": ["and", "or", "xnor"], "or": ["nor", "and", "xor"],
       "nor": ["or", "nand", "xnor"], "xor": ["xnor", "or", "and"], "xnor": ["xor", "nor", "nand"],
       "buf": ["not"], "not": ["buf"]}


def bounds(tier):
    q = tier == "quick"
    return {"c0": [[2, 2, None], [1, 2, None]] if q else [[2, 2, None], [1, 2, None], [3, 2, None], [2, 3, ("and", "xor", "not")]], "c1_small": [2, 1],
            "feedthrough": [2, 1] if q else [2, 2], "wide": 50 if q else 130, "history": [2, 2] if q else [2, 3]}


def jobs(tier, seed):
    n = 31 if tier == "quick" else 96
    js = [{"sub": "pairs", "chunk": i, "of": n} for i in range(n)]
    js.append({"sub": "pairs", "chunk": 0, "of": n, "hashseed": 1 + seed % 1000, "primary": False})
    b = bounds(tier)
    nw = 6 if tier == "quick" else 16
    js += [{"sub": "wide", "chunk": i, "of": nw, "max_outputs": b["wide"]} for i in range(nw)]
    js.append({"sub": "wide", "chunk": 0, "of": nw, "max_outputs": b["wide"], "hashseed": 2 + seed % 1000, "primary": False})
    nh = 4 if tier == "quick" else 12
    js += [{"sub": "history", "chunk": i, "of": nh} for i in range(nh)]
    return js


def nonempty_subsets(xs):
    xs = sorted(xs)
    for r in range(1, len(xs) + 1):
        for s in itertools.combinations(xs, r):
            yield list(s)


def demorgan(desc):
    """Equivalent restructurings: one multi-input gate rewritten through its dual."""
    dual = {"and": "nor", "or": "nand", "nand": "or", "nor": "and"}
    for i, (n, t, fi, o) in enumerate(desc["nodes"]):
        if t in dual and len(fi) >= 1:
            nodes = [list(x) for x in desc["nodes"]]
            inv = []
            extra = []
            for f in fi:
                extra.append([f"dm_{n}_{f}", "not", [f], False])
                inv.append(f"dm_{n}_{f}")
            nodes[i] = [n, dual[t], inv, o]
            yield {"name": "c1", "nodes": nodes[:i] + extra + nodes[i:]}
        if t in ("buf",) and len(fi) == 1:
            nodes = [list(x) for x in desc["nodes"]]
            extra = [[f"dn_{n}", "not", [fi[0]], False]]
            nodes[i] = [n, "not", [f"dn_{n}"], o]
            yield {"name": "c1", "nodes": nodes[:i] + extra + nodes[i:]}


def c1_variants(desc, small, full):
    """(label, c1 desc or None)."""
    yield "omitted", None
    yield "copy", dict(desc, name="c1")
    for i, (n, t, fi, o) in enumerate(desc["nodes"]):
        for t2 in MUT.get(t, []):
            if t2 in ("buf", "not") and len(fi) != 1:
                continue
            nodes = [list(x) for x in desc["nodes"]]
            nodes[i][1] = t2
            yield f"mut:{n}:{t2}", {"name": "c1", "nodes": nodes}
            if o and any(x[3] for j, x in enumerate(nodes) if j != i):
                nodes2 = [list(x) for x in nodes]
                nodes2[i][3] = False
                yield f"mut-hidden:{n}:{t2}", {"name": "c1", "nodes": nodes2}
    for k, d in enumerate(demorgan(desc)):
        yield f"demorgan:{k}", d
    # an input of c0 is the name of an INTERNAL GATE of c1 (a port that one version computes itself): it is a
    # startpoint of c0 only, so it is not tied and must not be wired into c1's copy
    ins = [x[0] for x in desc["nodes"] if x[1] == "input"]
    if len(ins) >= 2:
        for t2 in ("or", "xor"):
            nodes = []
            for x in desc["nodes"]:
                if x[0] == ins[-1]:
                    nodes.append([ins[-1] + "_src", "input", [], False])
                    nodes.append([ins[-1], t2, [ins[0], ins[-1] + "_src"], False])
                else:
                    nodes.append(list(x))
            yield f"gate-for-input:{t2}", {"name": "c1", "nodes": nodes}
    for k, d in enumerate(small):
        if full or k % 3 == 0:
            yield f"small:{k}", d


def var_table(T, U0, U1):
    order = [("t", n) for n in T] + [("0", n) for n in U0] + [("1", n) for n in U1]
    k = len(order)
    return {key: refsim.var_mask(i, k) for i, key in enumerate(order)}, refsim.full_mask(k)


def check_miter(acc, d0, d1, sp_arg, ep_arg, label, solve_too=True, edit=None, site="miter"):
    """edit = (which circuit 0/1, node, new type): miter is called once, the circuit object is edited in place with
    set_type, and the SECOND call on the same objects is the one checked (against the edited circuits)."""
    import circuitgraph as cg

    case = {"kind": "miter", "c0": d0, "c1": d1, "startpoints": sp_arg, "endpoints": ep_arg, "c1_label": label,
            "edit": edit, "site": site}
    c0 = space.build(d0)
    c1 = space.build(d1) if d1 is not None else None
    e1 = c1 if c1 is not None else c0
    if edit is not None:
        kw0 = {}
        if sp_arg:
            kw0["startpoints"] = set(sp_arg)
        if ep_arg:
            kw0["endpoints"] = set(ep_arg)
        try:
            cg.tx.miter(c0, c1, **kw0) if c1 is not None else cg.tx.miter(c0, **kw0)
            (c0 if edit[0] == 0 else e1).set_type(edit[1], edit[2])
        except Exception as e:  # noqa: BLE001
            acc.violation(site, f"miter-raises:{common.exc_name(e)}", case, repr(e))
            return None
    in0, in1 = set(c0.inputs()), set(e1.inputs())
    out0 = {n for n in c0.graph.nodes if c0.graph.nodes[n].get("output")}
    out1 = {n for n in e1.graph.nodes if e1.graph.nodes[n].get("output")}
    T = sorted(sp_arg) if sp_arg else sorted(in0 & in1)
    E = sorted(ep_arg) if ep_arg else sorted(out0 & out1)
    if not E:
        acc.outcome("no-shared-endpoints")
        return None
    U0 = sorted(in0 - set(T))
    U1 = sorted(in1 - set(T))
    var, full = var_table(T, U0, U1)
    a0 = {n: (var[("t", n)] if n in T else var[("0", n)], 0) for n in in0}
    a1 = {n: (var[("t", n)] if n in T else var[("1", n)], 0) for n in in1}
    v0 = refsim.evaluate(c0.graph, a0, full)
    v1 = refsim.evaluate(e1.graph, a1, full)
    want = 0
    for e in E:
        want |= v0[e][0] ^ v1[e][0]
    acc.transitions += 1
    kw = {}
    if sp_arg:
        kw["startpoints"] = set(sp_arg)
    if ep_arg:
        kw["endpoints"] = set(ep_arg)
    try:
        if label in ("copy", "omitted"):
            # an earlier call with the SAME argument objects (circuits, startpoint / endpoint sets) must not matter
            # ... and the caller may do what it likes with the first result
            space.scramble(cg.tx.miter(c0, c1, **kw) if c1 is not None else cg.tx.miter(c0, **kw))
            if (sp_arg and kw["startpoints"] != set(sp_arg)) or (ep_arg and kw["endpoints"] != set(ep_arg)):
                acc.violation(site, "argument-set-modified", case, f"startpoints/endpoints argument changed to {kw}")
                return None
        m = cg.tx.miter(c0, c1, **kw) if c1 is not None else cg.tx.miter(c0, **kw)
    except Exception as e:  # noqa: BLE001
        acc.violation(site, f"miter-raises:{common.exc_name(e)}", case, repr(e))
        return None
    if set(m.inputs()) != set(T):
        acc.violation(site, "wrong-inputs", case, f"inputs {sorted(m.inputs())}, tied startpoints {T}")
        return None
    if set(m.outputs()) != {"sat"}:
        acc.violation(site, "wrong-outputs", case, f"outputs {sorted(m.outputs())}")
        return None
    am = {n: (var[("t", n)], 0) for n in T}
    am.update({f"c0_{n}": (var[("0", n)], 0) for n in U0})
    am.update({f"c1_{n}": (var[("1", n)], 0) for n in U1})
    try:
        vm = refsim.evaluate(m.graph, am, full)
        got, gx = vm["sat"]
    except (refsim.RefError, KeyError) as e:
        acc.violation(site, "miter-unevaluable", case, repr(e))
        return None
    acc.observe(hex(want))
    acc.outcome("equal" if want == 0 else "always-differ" if want == full else "sometimes-differ")
    if gx or got != want:
        diff = got ^ want
        j = (diff & -diff).bit_length() - 1 if diff else -1
        acc.violation(site, "sat-table-wrong", case, f"sat is {(got >> j) & 1} at valuation index {j} of {sorted(var)}")
        return want
    if solve_too:
        for pol in (("first",), ("last",)):
            satref.set_policy(pol)
            acc.transitions += 1
            try:
                r = cg.sat.solve(m, {"sat": True})
            except Exception as e:  # noqa: BLE001
                acc.violation(site, f"solve-raises:{common.exc_name(e)}", case, repr(e))
                continue
            finally:
                satref.set_policy(("first",))
            if (r is False) != (want == 0):
                acc.violation(site, "solve-verdict-wrong", case, f"solve -> {r is not False}, circuits differ -> {want != 0}")
            elif r is not False and not r.get("sat"):
                acc.violation(site, "solve-model-sat-false", case, str(r))
    nt = want not in (0, full) or (want == 0 and label not in ("omitted", "copy"))
    return nt


def c0_space(tier):
    b = bounds(tier)
    for I, G, types in b["c0"]:
        for gates in space.circuits(I, G, types=types or space.ALL_GATES, max_arity=3 if types is None else 2, min_gates=1):
            yield space.to_desc(I, gates, outputs="gates", name="c0")
    for gates in space.circuits(1, 2, types=("and", "xor", "not"), max_arity=2, consts=("0", "1"), min_gates=2):
        yield space.to_desc(1, gates, consts=("0", "1"), outputs="gates", name="c0")
    for gates in space.circuits(0, 2, types=("and", "xor", "not"), max_arity=2, consts=("0", "1"), min_gates=1):
        yield space.to_desc(0, gates, consts=("0", "1"), outputs="gates", name="c0")   # no primary input at all
    for gates in space.circuits(2, 2, types=("and", "xor", "not"), max_arity=2, min_gates=2):
        d = space.to_desc(2, gates, outputs="gates", name="c0")
        yield space.rename(d, {"a": "c0_a", "b": "dif_b", "g0": "c1_g", "g1": "sat_o"})   # names with the miter's own prefixes
    I, G = b["feedthrough"]
    for gates in space.circuits(I, G, max_arity=2, min_gates=1):
        yield space.to_desc(I, gates, outputs="all", name="c0")


WIDE_TYPES = ("and", "or", "xor", "nand", "nor", "xnor")


def wide_desc(n, flip=None, name="c0"):
    """n outputs o0..o{n-1} over inputs a, b (o_i = T_i(a, b), T cycling); `flip` replaces one output's type by its complement."""
    comp = {"and": "nand", "nand": "and", "or": "nor", "nor": "or", "xor": "xnor", "xnor": "xor"}
    nodes = [["a", "input", [], False], ["b", "input", [], False]]
    for i in range(n):
        t = WIDE_TYPES[i % len(WIDE_TYPES)]
        nodes.append([f"o{i}", comp[t] if i == flip else t, ["a", "b"], True])
    return {"name": name, "nodes": nodes}


def run_wide(job, acc):
    """Many compared endpoints: for every n up to the bound and every single endpoint k, a c1 that differs from c0
    at endpoint k only (for both values of every input) - the difference must reach `sat` whatever n and k are."""
    top = job["max_outputs"]
    cases = [(n, k) for n in range(1, top + 1) for k in [None] + list(range(n))]
    for _idx, (n, k) in space.chunk(iter(cases), job["chunk"], job["of"]):
        acc.states += 1
        d0 = wide_desc(n)
        d1 = wide_desc(n, flip=k, name="c1")
        nt = check_miter(acc, d0, d1, None, None, f"wide:{n}:{k}", solve_too=(k is None or n % 8 in (0, 1)), site="wide")
        if k is not None and n > 1:
            # the same through an explicit endpoints argument that leaves one endpoint out
            eps = [f"o{i}" for i in range(n) if i != (k + 1) % n]
            check_miter(acc, d0, d1, None, eps, f"wide-ep:{n}:{k}", solve_too=False, site="wide")
        if nt or k is not None:
            acc.nontrivial += 1
    acc.sample({"max_outputs": top})


def run_history(job, acc):
    """call - edit in place - call: miter(c0, c1) on two circuit objects, set_type on one gate of one of them, then
    miter(c0, c1) again on the same objects; the second result must describe the edited circuits."""
    b = bounds(job["tier"])
    I, G = b["history"]
    descs = [space.to_desc(I, g, outputs="gates", name="c0") for g in space.circuits(I, G, max_arity=2, min_gates=1)]
    for _idx, d0 in space.chunk(iter(descs), job["chunk"], job["of"]):
        acc.states += 1
        nt_any = False
        for which in (0, 1):
            for n, t, fi, _o in d0["nodes"]:
                for t2 in MUT.get(t, []):
                    if t2 in ("buf", "not") and len(fi) != 1:
                        continue
                    for d1, label in ((dict(d0, name="c1"), "copy"), (None, "omitted")):
                        if d1 is None and which == 1:
                            continue
                        nt = check_miter(acc, d0, d1, None, None, f"hist-{label}", solve_too=True,
                                         edit=[which, n, t2], site="history")
                        nt_any = nt_any or bool(nt)
        if nt_any:
            acc.nontrivial += 1
        acc.sample({"c0": d0})


def run(job):
    common.setup_paths()
    acc = Acc(job)
    tier = job["tier"]
    if job.get("sub") == "wide":
        run_wide(job, acc)
        return acc.result()
    if job.get("sub") == "history":
        run_history(job, acc)
        return acc.result()
    full = tier != "quick"
    I, G = bounds(tier)["c1_small"]
    small = [space.to_desc(I, g, outputs="gates", name="c1") for g in space.circuits(I, G, min_gates=1)]
    for _idx, d0 in space.chunk(c0_space(tier), job["chunk"], job["of"]):
        acc.states += 1
        nt_any = False
        for label, d1 in c1_variants(d0, small, full):
            c0 = space.build(d0)
            e1 = space.build(d1) if d1 is not None else c0
            shared_in = sorted(set(c0.inputs()) & set(e1.inputs()))
            shared_out = sorted(set(c0.outputs()) & set(e1.outputs()))
            rich = label in ("omitted", "copy") or label.startswith("mut") or full
            sps = [None] + (list(nonempty_subsets(shared_in)) if rich else [shared_in[:1]] if shared_in else [])
            eps = [None] + (list(nonempty_subsets(shared_out)) if rich else [shared_out[:1]] if shared_out else [])
            for sp in sps:
                for ep in eps:
                    nt = check_miter(acc, d0, d1, sp, ep, label)
                    nt_any = nt_any or bool(nt)
        if nt_any:
            acc.nontrivial += 1
        acc.sample({"c0": d0})
        if acc.out_of_time():
            break
    return acc.result()


def replay(case, job):
    common.setup_paths()
    acc = Acc(job)
    check_miter(acc, case["c0"], case["c1"], case["startpoints"], case["endpoints"], case.get("c1_label", "?"),
                edit=case.get("edit"), site=case.get("site", "miter"))
    return acc.result()
