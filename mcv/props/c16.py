"""C16 - remove_unloaded deletes exactly the dead logic.

Sub-spaces
  shape   : all DAGs on n nodes x every typing of sources/sinks (input, constant,
            blackbox output / input pin, gate) x every output-marking subset x
            both values of the inputs flag.
  history : explicit-state BFS over {remove_unloaded(F/T), disconnect, remove,
            set_output(False)} from all 4-node DAG seeds, oracle applied to every
            remove_unloaded transition.
Oracle (refgraph): live = nodes from which an output or a bb_input pin is
reachable (reflexively).
"""
import itertools

from mcv import common, explore, refgraph, snapshot, space
from mcv.common import Acc

ID = "C16"
MECHANISM = ["circuit.remove_unloaded"]
RULE = (
    "case = (DAG, typing, output subset, inputs flag) or BFS transition; distinct = distinct tuple / "
    "distinct canonical state; non-trivial = the reference says at least one node must be deleted"
)
ASSUMPTIONS = [
    "acyclic circuits only (the property's quantifier)",
    "inputs=True is exercised on blackbox-free circuits only, as the property states",
]


def bounds(tier):
    return {
        "shape_max_nodes": 5 if tier == "quick" else 6,
        "shape_bb_max_nodes": 4 if tier == "quick" else 5,
        "const_kinds": ["0", "x"] if tier == "quick" else ["0", "1", "x"],
        "history_depth": 2 if tier == "quick" else 3,
        "history_seed_nodes": 4,
    }


def jobs(tier, seed):
    b = bounds(tier)
    js = []
    n = b["shape_max_nodes"]
    nchunks = 24 if tier == "quick" else 64
    for i in range(nchunks):
        js.append({"sub": "shape", "chunk": i, "of": nchunks, "n": n, "bb": False, "consts": b["const_kinds"]})
    nb = b["shape_bb_max_nodes"]
    for i in range(8 if tier == "quick" else 32):
        js.append({"sub": "shape-bb", "chunk": i, "of": 8 if tier == "quick" else 32, "n": nb, "bb": True,
                   "consts": ["0"]})
    for i in range(8 if tier == "quick" else 16):
        js.append({"sub": "history", "chunk": i, "of": 8 if tier == "quick" else 16, "depth": b["history_depth"]})
    # a second hash seed for a slice (pop order of the worklist follows list order, not hashing,
    # but fanin() sets are iterated)
    js.append({"sub": "shape", "chunk": 0, "of": nchunks, "n": n, "bb": False, "consts": b["const_kinds"],
               "hashseed": 1 + seed % 1000, "primary": False})
    js.append({"sub": "deep", "lengths": [5, 300, 1200, 3000] if tier == "quick" else [5, 300, 1200, 3000, 8000]})
    return js


# ---------------------------------------------------------------------------


def typings(n, edges, bb, consts):
    """All kind assignments for the nodes of a DAG."""
    indeg = [0] * n
    outdeg = [0] * n
    succ = [[] for _ in range(n)]
    pred = [[] for _ in range(n)]
    for u, v in edges:
        indeg[v] += 1
        outdeg[u] += 1
        succ[u].append(v)
        pred[v].append(u)
    opts = []
    for i in range(n):
        if indeg[i] == 0:
            o = ["input"] + list(consts)
            if bb and outdeg[i] <= 1 and (outdeg[i] == 0 or indeg[succ[i][0]] == 1):
                o.append("bbout")
            if bb and outdeg[i] == 0:
                o.append("bbin")
        elif indeg[i] == 1:
            o = ["buf"]
            if bb and outdeg[i] == 0:
                o.append("bbin")
        else:
            o = ["and"]
        opts.append(o)
    for kinds in itertools.product(*opts):
        ok = True
        has_bb = False
        for i, k in enumerate(kinds):
            if k in ("bbout", "bbin"):
                has_bb = True
            if k == "bbin" and indeg[i] == 1 and kinds[pred[i][0]] == "bbout":
                ok = False  # bb_output must drive a buf
        if ok and (has_bb == bb):
            yield kinds


def make_desc(n, edges, kinds, outs):
    name = {}
    for i, k in enumerate(kinds):
        name[i] = f"u.p{i}" if k in ("bbout", "bbin") else f"n{i}"
    nodes = []
    conn = {}
    ins, outs_p = [], []
    for i, k in enumerate(kinds):
        if k == "bbout":
            outs_p.append(f"p{i}")
            for u, v in edges:
                if u == i:
                    conn[f"p{i}"] = name[v]
        elif k == "bbin":
            ins.append(f"p{i}")
            for u, v in edges:
                if v == i:
                    conn[f"p{i}"] = name[u]
        else:
            fi = [name[u] for u, v in edges if v == i and kinds[u] != "bbout"]
            nodes.append([name[i], k, fi, i in outs])
    d = {"name": "top", "nodes": nodes}
    if ins or outs_p:
        d["bbs"] = [["u", "bbx", ins, outs_p, conn]]
    return d


def oracle(before_succ, types, outputs, inputs_flag):
    """Set of nodes that must be deleted."""
    live = set()
    roots = {n for n in before_succ if n in outputs or types[n] == "bb_input"}
    pred = refgraph.invert(before_succ)
    stack = list(roots)
    while stack:
        u = stack.pop()
        if u in live:
            continue
        live.add(u)
        stack.extend(pred[u])
    dead = set(before_succ) - live
    if inputs_flag:
        return {n for n in dead if types[n] not in ("bb_input", "bb_output")}, live
    return {n for n in dead if types[n] not in ("input", "bb_input", "bb_output")}, live


def check_call(acc, c, inputs_flag, site, case):
    """Apply remove_unloaded to live circuit c and compare with the oracle."""
    g = c.graph
    before_succ = refgraph.from_nx(g)
    types = {n: g.nodes[n].get("type") for n in g.nodes}
    outputs = {n for n in g.nodes if g.nodes[n].get("output")}
    before_pred = {n: set(g.pred[n]) for n in g.nodes}
    expect, live = oracle(before_succ, types, outputs, inputs_flag)
    acc.transitions += 1
    try:
        ret = c.remove_unloaded(inputs=inputs_flag)
        ret = list(ret)
    except Exception as e:  # noqa: BLE001
        acc.outcome("raises")
        acc.violation(site, f"raises:{common.exc_name(e)}", case, repr(e))
        return None
    after = set(c.graph.nodes)
    deleted = set(before_succ) - after
    acc.outcome("deletes" if deleted else "deletes-nothing")
    acc.observe(sorted(deleted), sorted(ret))
    if after - set(before_succ):
        acc.violation(site, "adds-nodes", case, sorted(after - set(before_succ)))
    wrong_kept = expect - deleted
    wrong_del = deleted - expect
    if wrong_del:
        prot = sorted({types[n] for n in wrong_del})
        if not inputs_flag and any(t in ("input", "bb_input", "bb_output") for t in prot):
            acc.violation(site, "deleted-protected:" + ",".join(prot), case,
                          f"inputs=False deleted {sorted(wrong_del)}")
        else:
            acc.violation(site, "deleted-live", case, f"deleted {sorted(wrong_del)} which reach an endpoint")
    if wrong_kept:
        acc.violation(site, "kept-dead", case, f"kept dead nodes {sorted(wrong_kept)}")
    if sorted(ret) != sorted(deleted):
        acc.violation(site, "return-mismatch", case, f"returned {sorted(ret)} deleted {sorted(deleted)}")
    for n in after & set(before_succ):
        d = c.graph.nodes[n]
        if d.get("type") != types[n] or bool(d.get("output")) != (n in outputs):
            acc.violation(site, "survivor-attr-changed", case, n)
        if n in live and set(c.graph.pred[n]) != before_pred[n]:
            acc.violation(site, "survivor-fanin-changed", case, n)
    # idempotence
    try:
        ret2 = list(c.remove_unloaded(inputs=inputs_flag))
        if ret2 or set(c.graph.nodes) != after:
            acc.violation(site, "not-idempotent", case, f"second call removed {sorted(ret2)}")
    except Exception as e:  # noqa: BLE001
        acc.violation(site, f"second-call-raises:{common.exc_name(e)}", case, repr(e))
    return bool(expect)


def run_shape(job, acc):
    n_max = job["n"]
    it = ((n, e) for n in range(1, n_max + 1) for e in space.dags(n))
    for _idx, (n, edges) in space.chunk(it, job["chunk"], job["of"]):
        for kinds in typings(n, edges, job["bb"], job["consts"]):
            markable = [i for i in range(n) if kinds[i] not in ("bbin", "bbout")]
            base = {}
            for r in range(len(markable) + 1):
                for outs in itertools.combinations(markable, r):
                    desc = make_desc(n, edges, kinds, set(outs))
                    for flag in ((False,) if job["bb"] else (False, True)):
                        # nodes inserted fan-in first, and loads first (a circuit built from its outputs backwards)
                        # "alias": the first plain node carries the blackbox INSTANCE's name (u) - the registry
                        # and the graph are separate name spaces
                        alias = job["bb"] and kinds[0] not in ("bbin", "bbout") and any(k in ("bbin", "bbout") for k in kinds)
                        for order in (None, "rev") + (("alias",) if alias else ()):
                            ren = {"n0": "u"} if order == "alias" else {}
                            if order not in base:
                                base[order] = space.build(space.rename(make_desc(n, edges, kinds, set()), ren),
                                                          order=order if order == "rev" else None)
                            c = snapshot.clone(base[order])
                            for i in outs:
                                c.graph.nodes[ren.get(f"n{i}", f"n{i}")]["output"] = True
                            case = {"kind": "shape", "desc": space.rename(desc, ren) if ren else desc, "inputs": flag,
                                    "order": order if order == "rev" else None}
                            acc.states += 1
                            nt = check_call(acc, c, flag, "shape", case)
                            if nt:
                                acc.nontrivial += 1
                            acc.sample(case)
        if acc.out_of_time():
            break


def deep_desc(L, from_input):
    """A live gate next to a dead chain of L inverters (hanging off input a, or off a constant)."""
    nodes = [["a", "input", [], False], ["b", "input", [], False], ["g", "and", ["a", "b"], True]]
    prev = "a"
    if not from_input:
        nodes.append(["k", "1", [], False])
        prev = "k"
    for i in range(L):
        nodes.append([f"d{i}", "not", [prev], False])
        prev = f"d{i}"
    return {"name": "deep", "nodes": nodes}


def run_deep(job, acc):
    for L in job["lengths"]:
        for from_input in (True, False):
            for flag in (False, True):
                desc = deep_desc(L, from_input)
                case = {"kind": "shape", "desc": {"deep": [L, from_input]}, "inputs": flag, "order": None}
                acc.states += 1
                acc.nontrivial += 1
                check_call(acc, space.build(desc), flag, "deep", case)
    acc.sample({"lengths": job["lengths"]})


# --- history -----------------------------------------------------------------


def hist_menu(c, hist):
    ops = [["ru", False]]
    if not c.blackboxes and not any("." in n for n in c.graph.nodes):
        ops.append(["ru", True])
    for u, v in sorted(c.graph.edges):
        ops.append(["disc", u, v])
    for n in sorted(c.graph.nodes):
        ops.append(["rm", n])
        if c.graph.nodes[n].get("output"):
            ops.append(["unout", n])
    return ops


def hist_apply(c, op, hist):
    try:
        if op[0] == "ru":
            c.remove_unloaded(inputs=op[1])
        elif op[0] == "disc":
            c.disconnect(op[1], op[2])
        elif op[0] == "rm":
            c.remove(op[1])
        elif op[0] == "unout":
            c.set_output(op[1], False)
    except Exception as e:  # noqa: BLE001
        return e, hist
    return None, hist


def run_history(job, acc):
    seeds = []
    it = ((4, e) for e in space.dags(4))
    for idx, (n, edges) in space.chunk(it, job["chunk"], job["of"]):
        for bb in (False, True):
            for kinds in typings(n, edges, bb, ["0"]):
                if bb and sum(k in ("bbin", "bbout") for k in kinds) != 1:
                    continue
                indeg = {i: 0 for i in range(n)}
                outd = {i: 0 for i in range(n)}
                for u, v in edges:
                    indeg[v] += 1
                    outd[u] += 1
                outs = {i for i in range(n) if outd[i] == 0 and indeg[i] > 0 and kinds[i] not in ("bbin", "bbout")}
                desc = make_desc(n, edges, kinds, outs)
                seeds.append((desc, space.build(desc), ()))

    def on_trans(before, hist, op, after, nhist, exc, trace):
        if op[0] != "ru":
            acc.transitions += 1
            return
        c = snapshot.clone(before)
        case = {"kind": "history", "seed": trace[0][1], "ops": trace[1:]}
        nt = check_call(acc, c, op[1], "history", case)
        if nt:
            acc.nontrivial += 1
        acc.sample(case)

    st = explore.bfs(seeds, snapshot.clone, snapshot.key, hist_menu, hist_apply, job["depth"],
                     on_trans=on_trans, stop=acc.out_of_time)
    acc.states += st["states"]
    acc.extra["bfs_max_depth"] = st["max_depth"]


def run(job):
    common.setup_paths()
    acc = Acc(job)
    if job["sub"].startswith("shape"):
        run_shape(job, acc)
    elif job["sub"] == "deep":
        run_deep(job, acc)
    else:
        run_history(job, acc)
    return acc.result()


def replay(case, job):
    common.setup_paths()
    acc = Acc(job)
    if case["kind"] == "shape":
        d = deep_desc(*case["desc"]["deep"]) if "deep" in case["desc"] else case["desc"]
        c = space.build(d, order=case.get("order"))
        check_call(acc, c, case["inputs"], "shape", case)
    else:
        c = space.build(case["seed"])
        for op in case["ops"][:-1]:
            if op[0] == "ru":
                c.remove_unloaded(inputs=op[1])
            else:
                hist_apply(c, op, ())
        last = case["ops"][-1]
        check_call(acc, c, last[1], "history", case)
    return acc.result()
