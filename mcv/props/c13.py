"""C13 - generated arithmetic blocks compute the arithmetic they name.

Exhaustive over all input vectors for small widths (bit-parallel refsim), complete
structured vector families for large widths, exhaustive integer ranges for the helpers.
"""
import itertools

from mcv import common, refsim
from mcv.common import Acc

ID = "C13"
MECHANISM = ["logic.adder", "logic.mux", "logic.popcount", "logic.full_adder", "logic.half_adder",
             "utils.clog2", "utils.int_to_bin", "utils.bin_to_int"]
RULE = ("case = (generator, width, options) evaluated on ALL input vectors (small widths) or a complete structured "
        "family (large widths), or (helper, argument); non-trivial = block with >= 2 inputs / helper argument > 1")
ASSUMPTIONS = ["outputs are read with the reference simulator from the generated graph",
               "mux select value: sel_0 is the least significant select bit; popcount/adder out_0 is the least significant bit"]


def bounds(tier):
    q = tier == "quick"
    return {"adder_w": 6 if q else 8, "mux_w": 9 if q else 12, "popcount_w": 12 if q else 15,
            "clog2_n": 4096 if q else 65536, "bin_w": 10 if q else 13,
            "wide": [16, 32] if q else [16, 24, 32, 48, 64]}


def jobs(tier, seed):
    b = bounds(tier)
    js = [{"sub": "adders", "chunk": 0, "of": 1}]
    js += [{"sub": "adder", "w": w} for w in range(1, b["adder_w"] + 1)]
    js += [{"sub": "mux", "w": w} for w in range(1, b["mux_w"] + 1)]
    js += [{"sub": "popcount", "w": w} for w in range(1, b["popcount_w"] + 1)]
    js += [{"sub": "helpers"}]
    js += [{"sub": "wide", "w": w} for w in b["wide"]]
    js += [{"sub": "history", "g1": g} for g in sorted(GENS)]
    js.append({"sub": "popcount", "w": 5, "hashseed": 1 + seed % 1000, "primary": False})
    return js


def lint_ok(acc, c, case):
    import circuitgraph as cg

    acc.transitions += 1
    try:
        cg.lint(c)
    except Exception as e:  # noqa: BLE001
        acc.violation("lint", f"not-lint-clean:{common.exc_name(e)}", case, repr(e))


def eval_all(c, order):
    """Truth tables of all nodes with free inputs in the given order."""
    assert set(order) == set(c.inputs()), (order, c.inputs())
    tabs, _fr, full = refsim.tables(c.graph, order=order)
    return tabs, full


def expect_table(nvars, fn):
    """int whose bit j is fn(j)."""
    m = 0
    for j in range(1 << nvars):
        if fn(j):
            m |= 1 << j
    return m


def field(j, lo, w):
    return (j >> lo) & ((1 << w) - 1)


def gen(acc, site, fn, case):
    acc.transitions += 1
    try:
        return fn()
    except Exception as e:  # noqa: BLE001
        acc.violation(site, f"generator-raises:{common.exc_name(e)}", case, repr(e))
        return None


def check_outputs(acc, site, c, case, order, wants):
    """wants: {output name: expected table}; output set must be exactly these."""
    acc.transitions += 1
    try:
        if set(c.inputs()) != set(order):
            acc.violation(site, "wrong-inputs", case, f"{sorted(c.inputs())} vs {sorted(order)}")
            return
        tabs, full = eval_all(c, order)
    except Exception as e:  # noqa: BLE001
        acc.violation(site, f"unevaluable:{common.exc_name(e)}", case, repr(e))
        return
    if set(c.outputs()) != set(wants):
        acc.violation(site, "wrong-output-set", case, f"{sorted(c.outputs())} vs {sorted(wants)}")
        return
    for o, w in wants.items():
        if tabs[o] != w:
            diff = tabs[o] ^ w
            j = (diff & -diff).bit_length() - 1
            acc.violation(site, "wrong-function", case, f"output {o} wrong at input vector index {j} (order {order})")
            return
    acc.outcome("ok")
    acc.observe(site, sorted((k, hex(v)) for k, v in wants.items()))


def run_adders(acc):
    import circuitgraph as cg

    case = {"kind": "half_adder"}
    c = gen(acc, "half_adder", cg.logic.half_adder, case)
    acc.states += 1
    acc.nontrivial += 1
    if c is not None:
        lint_ok(acc, c, case)
        check_outputs(acc, "half_adder", c, case, ["x", "y"], {
            "s": expect_table(2, lambda j: (field(j, 0, 1) + field(j, 1, 1)) & 1),
            "c": expect_table(2, lambda j: (field(j, 0, 1) + field(j, 1, 1)) >> 1)})
    case = {"kind": "full_adder"}
    c = gen(acc, "full_adder", cg.logic.full_adder, case)
    acc.states += 1
    acc.nontrivial += 1
    if c is not None:
        lint_ok(acc, c, case)
        s = lambda j: field(j, 0, 1) + field(j, 1, 1) + field(j, 2, 1)
        check_outputs(acc, "full_adder", c, case, ["x", "y", "cin"], {
            "s": expect_table(3, lambda j: s(j) & 1), "cout": expect_table(3, lambda j: s(j) >> 1)})
    acc.sample(case)


def check_adder(acc, w, ci, co):
    import circuitgraph as cg

    case = {"kind": "adder", "w": w, "carry_in": ci, "carry_out": co}
    acc.states += 1
    acc.nontrivial += 1
    c = gen(acc, "adder", lambda: cg.logic.adder(w, carry_in=ci, carry_out=co), case)
    if c is None:
        return
    lint_ok(acc, c, case)
    order = [f"a_{i}" for i in range(w)] + [f"b_{i}" for i in range(w)] + (["cin"] if ci else [])
    nv = len(order)
    tot = lambda j: field(j, 0, w) + field(j, w, w) + (field(j, 2 * w, 1) if ci else 0)
    wants = {f"out_{i}": expect_table(nv, lambda j, i=i: (tot(j) >> i) & 1) for i in range(w)}
    if co:
        wants["cout"] = expect_table(nv, lambda j: (tot(j) >> w) & 1)
    check_outputs(acc, "adder", c, case, order, wants)
    acc.sample(case)


def clog2_ref(n):
    return (n - 1).bit_length()


def check_mux(acc, w):
    import circuitgraph as cg

    case = {"kind": "mux", "w": w}
    acc.states += 1
    if w > 1:
        acc.nontrivial += 1
    c = gen(acc, "mux", lambda: cg.logic.mux(w), case)
    if c is None:
        return
    lint_ok(acc, c, case)
    ns = clog2_ref(w)
    order = [f"in_{i}" for i in range(w)] + [f"sel_{i}" for i in range(ns)]

    def out(j):
        i = field(j, w, ns) if ns else 0
        return field(j, i, 1) if i < w else 0

    check_outputs(acc, "mux", c, case, order, {"out": expect_table(w + ns, out)})
    acc.sample(case)


def check_popcount(acc, w):
    import circuitgraph as cg

    case = {"kind": "popcount", "w": w}
    acc.states += 1
    if w > 1:
        acc.nontrivial += 1
    c = gen(acc, "popcount", lambda: cg.logic.popcount(w), case)
    if c is None:
        return
    lint_ok(acc, c, case)
    order = [f"in_{i}" for i in range(w)]
    acc.transitions += 1
    outs = sorted(c.outputs())
    try:
        idx = sorted(int(o[len("out_"):]) for o in outs if o.startswith("out_"))
    except ValueError:
        idx = None
    if idx is None or len(idx) != len(outs) or idx != list(range(len(idx))):
        acc.violation("popcount", "wrong-output-set", case, outs)
        return
    if (1 << len(idx)) <= w:
        acc.violation("popcount", "too-few-output-bits", case, outs)
        return
    wants = {f"out_{i}": expect_table(w, lambda j, i=i: (bin(j).count("1") >> i) & 1) for i in idx}
    check_outputs(acc, "popcount", c, case, order, wants)
    acc.sample(case)


def run_helpers(job, acc):
    import circuitgraph as cg

    b = bounds(job["tier"])
    u = cg.utils
    ns = list(range(1, b["clog2_n"] + 1))
    for k in range(1, 65):
        ns += [2 ** k - 1, 2 ** k, 2 ** k + 1]
    for n in ns:
        acc.states += 1
        acc.transitions += 1
        if n > 1:
            acc.nontrivial += 1
        case = {"kind": "clog2", "n": n}
        try:
            got = u.clog2(n)
        except Exception as e:  # noqa: BLE001
            acc.violation("clog2", f"raises:{common.exc_name(e)}", case, repr(e))
            continue
        if got != clog2_ref(n):
            acc.violation("clog2", "wrong-value", case, f"clog2({n}) = {got}, expected {clog2_ref(n)}")
    for bad in (0, -1):
        acc.transitions += 1
        try:
            u.clog2(bad)
            acc.violation("clog2", "accepts-nonpositive", {"kind": "clog2", "n": bad}, "")
        except ValueError:
            pass
        except Exception as e:  # noqa: BLE001
            acc.violation("clog2", f"wrong-exception:{common.exc_name(e)}", {"kind": "clog2", "n": bad}, repr(e))
    for w in range(1, b["bin_w"] + 1):
        for i in range(1 << w):
            for lend in (False, True):
                acc.states += 1
                acc.transitions += 1
                if i > 1:
                    acc.nontrivial += 1
                case = {"kind": "bin", "i": i, "w": w, "lend": lend}
                try:
                    t = u.int_to_bin(i, w, lend)
                    back = u.bin_to_int(t, lend)
                except Exception as e:  # noqa: BLE001
                    acc.violation("bin", f"raises:{common.exc_name(e)}", case, repr(e))
                    continue
                want = tuple(bool((i >> k) & 1) for k in (range(w) if lend else range(w - 1, -1, -1)))
                if back != i:
                    acc.violation("bin", "roundtrip-mismatch", case, f"{i} -> {t} -> {back}")
                elif tuple(bool(x) for x in t) != want or len(t) != w:
                    acc.violation("bin", "wrong-bits", case, f"int_to_bin({i},{w},{lend}) = {t}, expected {want}")
    acc.sample({"kind": "clog2", "n": 17})
    acc.observe("helpers", acc.transitions)


def batch_eval(c, vecs, names):
    """Evaluate c on explicit vectors: vecs = list of dict name -> 0/1."""
    full = (1 << len(vecs)) - 1
    assign = {}
    for n in names:
        m = 0
        for j, v in enumerate(vecs):
            if v[n]:
                m |= 1 << j
        assign[n] = (m, 0)
    val = refsim.evaluate(c.graph, assign, full)
    return val


def structured_values(w):
    vals = {0, 1, (1 << w) - 1, 1 << (w - 1), int("01" * (w // 2), 2), int("10" * (w // 2), 2)}
    vals |= {1 << i for i in range(w)}
    vals |= {((1 << w) - 1) ^ (1 << i) for i in range(w)}
    return sorted(vals)


def run_wide(job, acc):
    import circuitgraph as cg

    w = job["w"]
    vals = structured_values(w)
    for ci, co in itertools.product((False, True), repeat=2):
        case = {"kind": "adder-wide", "w": w, "carry_in": ci, "carry_out": co}
        acc.states += 1
        acc.nontrivial += 1
        c = gen(acc, "adder-wide", lambda: cg.logic.adder(w, carry_in=ci, carry_out=co), case)
        if c is None:
            continue
        lint_ok(acc, c, case)
        names = [f"a_{i}" for i in range(w)] + [f"b_{i}" for i in range(w)] + (["cin"] if ci else [])
        vecs, meta = [], []
        for a in vals:
            for b in vals:
                for cin in ((0, 1) if ci else (0,)):
                    v = {f"a_{i}": (a >> i) & 1 for i in range(w)}
                    v.update({f"b_{i}": (b >> i) & 1 for i in range(w)})
                    if ci:
                        v["cin"] = cin
                    vecs.append(v)
                    meta.append((a, b, cin))
        acc.transitions += len(vecs)
        try:
            val = batch_eval(c, vecs, names)
        except Exception as e:  # noqa: BLE001
            acc.violation("adder-wide", f"unevaluable:{common.exc_name(e)}", case, repr(e))
            continue
        for j, (a, b, cin) in enumerate(meta):
            tot = a + b + cin
            got = sum(((val[f"out_{i}"][0] >> j) & 1) << i for i in range(w))
            if co:
                got |= ((val["cout"][0] >> j) & 1) << w
            want = tot & ((1 << (w + 1 if co else w)) - 1)
            if got != want:
                cc = dict(case)
                cc.update(a=a, b=b, cin=cin)
                acc.violation("adder-wide", "wrong-sum", cc, f"{a}+{b}+{cin} -> {got}, expected {want}")
                break
        acc.sample(case)
    # popcount and mux at width w on the structured family
    case = {"kind": "popcount-wide", "w": w}
    acc.states += 1
    acc.nontrivial += 1
    c = gen(acc, "popcount-wide", lambda: cg.logic.popcount(w), case)
    if c is not None:
        lint_ok(acc, c, case)
        names = [f"in_{i}" for i in range(w)]
        vecs = [{f"in_{i}": (a >> i) & 1 for i in range(w)} for a in vals]
        acc.transitions += len(vecs)
        try:
            val = batch_eval(c, vecs, names)
            outs = sorted(c.outputs(), key=lambda o: int(o.split("_")[1]))
            for j, a in enumerate(vals):
                got = sum(((val[o][0] >> j) & 1) << int(o.split("_")[1]) for o in outs)
                if got != bin(a).count("1"):
                    cc = dict(case)
                    cc["a"] = a
                    acc.violation("popcount-wide", "wrong-count", cc, f"popcount({a:#x}) -> {got}")
                    break
        except Exception as e:  # noqa: BLE001
            acc.violation("popcount-wide", f"unevaluable:{common.exc_name(e)}", case, repr(e))
    case = {"kind": "mux-wide", "w": w}
    acc.states += 1
    acc.nontrivial += 1
    c = gen(acc, "mux-wide", lambda: cg.logic.mux(w), case)
    if c is not None:
        lint_ok(acc, c, case)
        ns = clog2_ref(w)
        names = [f"in_{i}" for i in range(w)] + [f"sel_{i}" for i in range(ns)]
        vecs, meta = [], []
        for a in vals:
            for s in range(1 << ns):
                v = {f"in_{i}": (a >> i) & 1 for i in range(w)}
                v.update({f"sel_{i}": (s >> i) & 1 for i in range(ns)})
                vecs.append(v)
                meta.append((a, s))
        acc.transitions += len(vecs)
        try:
            val = batch_eval(c, vecs, names)
            for j, (a, s) in enumerate(meta):
                got = (val["out"][0] >> j) & 1
                want = (a >> s) & 1 if s < w else 0
                if got != want:
                    cc = dict(case)
                    cc.update(a=a, sel=s)
                    acc.violation("mux-wide", "wrong-select", cc, f"in={a:#x} sel={s} -> {got}")
                    break
        except Exception as e:  # noqa: BLE001
            acc.violation("mux-wide", f"unevaluable:{common.exc_name(e)}", case, repr(e))
    acc.observe("wide", w, acc.transitions)


# --- histories: obtain a block, edit it, generate again ------------------------------------------

GENS = {
    "half_adder": ("adders", None),
    "full_adder": ("adders", None),
    "adder1": ("adder", 1),
    "adder2": ("adder", 2),
    "mux2": ("mux", 2),
    "mux3": ("mux", 3),
    "popcount2": ("popcount", 2),
    "popcount3": ("popcount", 3),
}
MUTS = ["retype-gates", "remove-node", "disconnect-all", "clear-outputs", "rename-node", "add-node"]


def obtain(g):
    import circuitgraph as cg

    kind, w = GENS[g]
    if g == "half_adder":
        return cg.logic.half_adder()
    if g == "full_adder":
        return cg.logic.full_adder()
    if kind == "adder":
        return cg.logic.adder(w, carry_in=True, carry_out=True)
    if kind == "mux":
        return cg.logic.mux(w)
    return cg.logic.popcount(w)


def mutate(c, m):
    """Edits a caller is entitled to make to a circuit it was handed."""
    flip = {"and": "or", "or": "and", "xor": "xnor", "xnor": "xor", "nand": "nor", "nor": "nand", "buf": "not", "not": "buf"}
    nodes = sorted(c.nodes())
    if m == "retype-gates":
        for n in nodes:
            if c.type(n) in flip:
                c.set_type(n, flip[c.type(n)])
    elif m == "remove-node":
        gates = [n for n in nodes if c.type(n) in flip]
        if gates:
            c.remove(gates[0])
    elif m == "disconnect-all":
        for u, v in sorted(c.edges()):
            c.disconnect(u, v)
    elif m == "clear-outputs":
        c.set_output(nodes, False)
    elif m == "rename-node":
        c.relabel({n: f"zz_{n}" for n in nodes})
    elif m == "add-node":
        c.add("zz_extra", "input")
        c.name = "edited"


def verify_gen(acc, g):
    kind, w = GENS[g]
    if kind == "adders":
        run_adders(acc)
    elif kind == "adder":
        for ci, co in itertools.product((False, True), repeat=2):
            check_adder(acc, w, ci, co)
    elif kind == "mux":
        check_mux(acc, w)
    else:
        check_popcount(acc, w)


def run_history(job, acc, muts=None, only_g2=None):
    g1 = job["g1"]
    done = []
    for m in (muts if muts is not None else MUTS):
        try:
            c = obtain(g1)
            mutate(c, m)
        except Exception as e:  # noqa: BLE001
            acc.outcome(f"edit-raises:{common.exc_name(e)}")
        done.append(m)
        if muts is not None and m != muts[-1]:
            continue
        for g2 in ([only_g2] if only_g2 else sorted(GENS)):
            sub = Acc(job)
            verify_gen(sub, g2)
            acc.states += 1
            acc.nontrivial += 1
            acc.transitions += sub.transitions
            acc.outcome("regen-ok" if not sub.violations else "regen-bad")
            for v in sub.violations[:1]:
                case = {"kind": "history", "g1": g1, "muts": list(done), "g2": g2}
                acc.violation("history", "after-edit:" + v["mode"], case,
                              f"obtain {g1}, edit ({m}), then generate {g2}: " + v["detail"])
            acc.sample({"kind": "history", "g1": g1, "muts": list(done), "g2": g2})
    acc.observe("history", g1, sorted(acc.outcomes.items()))


def run(job):
    common.setup_paths()
    acc = Acc(job)
    sub = job["sub"]
    if sub == "adders":
        run_adders(acc)
    elif sub == "adder":
        for ci, co in itertools.product((False, True), repeat=2):
            check_adder(acc, job["w"], ci, co)
    elif sub == "mux":
        check_mux(acc, job["w"])
    elif sub == "popcount":
        check_popcount(acc, job["w"])
    elif sub == "helpers":
        run_helpers(job, acc)
    elif sub == "wide":
        run_wide(job, acc)
    elif sub == "history":
        run_history(job, acc)
    return acc.result()


def replay(case, job):
    common.setup_paths()
    acc = Acc(job)
    job = dict(job)
    job.setdefault("tier", "quick")
    k = case["kind"]
    if k in ("half_adder", "full_adder"):
        run_adders(acc)
    elif k == "adder":
        check_adder(acc, case["w"], case["carry_in"], case["carry_out"])
    elif k == "mux":
        check_mux(acc, case["w"])
    elif k == "popcount":
        check_popcount(acc, case["w"])
    elif k in ("clog2", "bin"):
        run_helpers(job, acc)
    elif k == "history":
        run_history({"g1": case["g1"]}, acc, muts=case["muts"], only_g2=case["g2"])
    else:
        run_wide({"w": case["w"]}, acc)
    return acc.result()
