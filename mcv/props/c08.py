"""C08 - model counting and signal probability are exact.

Sub-spaces
  count    : model_count(c, A) over all circuits (acyclic with constants, cyclic, blackbox variants,
             zero-startpoint) x all partial assignments (3^n, n <= 5 nodes) under both solver polarities.
  ladder   : single cones with 5..10 (12) startpoints (the counting loop itself).
  sigprob  : signal_probability(c, n, approx=False) for every node of every blackbox-free circuit.
  approx   : approx_model_count (default plain-clause mode) with the vendored exact projected counter
             on PATH: return value, sampling set and projected count of the captured DIMACS text.
  history  : sequences of calls on the SAME circuit object (count / count with other assumptions /
             edit / count), each compared with the oracle for the object's current state.
Oracle: number of startpoint valuations that extend to a consistent valuation satisfying A (refsim).
"""
import itertools
import os
import tempfile

from mcv import common, refsim, satref, space
from mcv.common import Acc

ID = "C08"
MECHANISM = ["sat.model_count", "props.signal_probability", "sat.approx_model_count", "sat.cnf"]
RULE = ("case = (circuit, assumption set, solver polarity) / (circuit, node) / call history; distinct = distinct "
        "(desc, assumption); non-trivial = expected count differs from 0 and from 2^|startpoints|")
ASSUMPTIONS = ["vendored DPLL stand-in for python-sat; both decision polarities are run",
               "approxmc is replaced by an exact projected model counter (as the property anticipates)"]


def bounds(tier):
    q = tier == "quick"
    return {"acyclic": [[2, 2], [3, 1]] if q else [[2, 2], [3, 2]], "cyclic": [[2, 2]] if q else [[2, 2], [1, 2]],
            "assume_all_upto_nodes": 4 if q else 5, "ladder": list(range(5, 9 if q else 11)),
            "sigprob": [[2, 2], [3, 2]] if q else [[2, 2], [3, 2], [2, 3]]}


def jobs(tier, seed):
    b = bounds(tier)
    js = []
    n = 16 if tier == "quick" else 64
    js += [{"sub": "count", "chunk": i, "of": n} for i in range(n)]
    js += [{"sub": "ladder", "k": k} for k in b["ladder"]]
    m = 8 if tier == "quick" else 32
    js += [{"sub": "sigprob", "chunk": i, "of": m} for i in range(m)]
    js += [{"sub": "approx", "chunk": i, "of": 12} for i in range(12)]
    js += [{"sub": "history", "chunk": i, "of": 8} for i in range(8)]
    js.append({"sub": "count", "chunk": 0, "of": n, "hashseed": 1 + seed % 1000, "primary": False})
    js.append({"sub": "sigprob", "chunk": 0, "of": m, "hashseed": 1 + seed % 1000, "primary": False})
    return js


# --- oracle -----------------------------------------------------------------------------------


def startpoints_of(c):
    g = c.graph
    return sorted(n for n in g.nodes if g.nodes[n].get("type") in ("input", "bb_output"))


def expected_count(c, assumption):
    """Number of startpoint valuations that extend to a consistent valuation agreeing with A."""
    nodes = sorted(c.graph.nodes)
    want, _ = refsim.consistent(c.graph, nodes)
    k = len(nodes)
    for n, v in assumption.items():
        m = refsim.var_mask(nodes.index(n), k)
        want &= m if v else ~m & refsim.full_mask(k)
    sp_idx = [nodes.index(s) for s in startpoints_of(c)]
    seen = set()
    j = 0
    w = want
    while w:
        if w & 1:
            seen.add(tuple((j >> i) & 1 for i in sp_idx))
        w >>= 1
        j += 1
    return len(seen)


def corpus(tier):
    b = bounds(tier)
    for I, G in b["acyclic"]:
        for gates in space.circuits(I, G, min_gates=1):
            yield space.to_desc(I, gates, outputs="sinks")
    for gates in space.circuits(1, 2, consts=("0", "1"), min_gates=1):
        yield space.to_desc(1, gates, consts=("0", "1"), outputs="sinks")
    for gates in space.circuits(0, 2, consts=("0", "1"), min_gates=1):  # zero startpoints
        yield space.to_desc(0, gates, consts=("0", "1"), outputs="sinks")
    for I, G in b["cyclic"]:
        for gates in space.cyclic_circuits(I, G):
            yield space.to_desc(I, gates, outputs="sinks")
    if tier != "quick":
        for gates in space.cyclic_circuits(1, 3, types=("and", "xor", "not"), max_arity=2):
            yield space.to_desc(1, gates, outputs="sinks")
        for gates in space.circuits(2, 3, types=("and", "xor", "not"), max_arity=2, min_gates=3):
            yield space.to_desc(2, gates, outputs="sinks")
    yield from bb_variants()
    yield from alias_descs()


def alias_descs():
    """Nodes named like the auxiliary variables the encoder introduces for parity gates (xor_<x>_<y>, xor_inv_<g>)."""
    ins = ["p", "q", "r"]
    for t in ("xor", "xnor"):
        for a, b in itertools.permutations(ins, 2):
            for at in ("input", "and"):
                nodes = [[i, "input", [], False] for i in ins]
                nodes.append([f"xor_{a}_{b}", at, [] if at == "input" else ["p", "q"], True])
                nodes.append(["g", t, ins, True])
                yield {"name": "top", "nodes": nodes}
    for at in ("input", "not"):
        for arity in (2, 3):
            nodes = [[i, "input", [], False] for i in ins]
            nodes.append(["xor_inv_g", at, [] if at == "input" else ["r"], True])
            nodes.append(["g", "xnor", ins[:arity], True])
            yield {"name": "top", "nodes": nodes}


def bb_variants():
    for gates in space.circuits(2, 1, min_gates=1):
        for t2 in ("and", "xor", "nor"):
            d = space.to_desc(2, gates, outputs=[])
            d["nodes"].append(["w", "buf", [], False])
            d["nodes"].append(["o", t2, ["w", "g0"], True])
            d["bbs"] = [["u", "bbx", ["d"], ["q"], {"d": "g0", "q": "w"}]]
            yield d


def assumptions_for(nodes, all_upto):
    if len(nodes) <= all_upto:
        for vals in itertools.product((None, False, True), repeat=len(nodes)):
            yield {n: v for n, v in zip(nodes, vals) if v is not None}
    else:
        yield {}
        for n in nodes:
            for v in (False, True):
                yield {n: v}
        for a, b in itertools.combinations(nodes, 2):
            for va, vb in itertools.product((False, True), repeat=2):
                yield {a: va, b: vb}


def call_count(acc, site, c, case, a, want, pol):
    import circuitgraph as cg

    satref.set_policy(pol)
    acc.transitions += 1
    cc = dict(case)
    cc.update(assumption=a, policy=list(pol))
    try:
        got = cg.sat.model_count(c, dict(a)) if a else cg.sat.model_count(c)
    except Exception as e:  # noqa: BLE001
        acc.violation(site, f"model_count-raises:{common.exc_name(e)}", cc, repr(e))
        return
    finally:
        satref.set_policy(("first",))
    acc.outcome("zero" if want == 0 else "some")
    if got != want:
        acc.violation(site, "model_count-wrong", cc, f"model_count = {got}, expected {want}")


def run_count(job, acc):
    b = bounds(job["tier"])
    for _idx, desc in space.chunk(corpus(job["tier"]), job["chunk"], job["of"]):
        c0 = space.build(desc)
        nodes = sorted(c0.graph.nodes)
        if len(nodes) > 12:
            continue
        case = {"kind": "count", "desc": desc}
        nsp = len(startpoints_of(c0))
        acc.states += 1
        nt = False
        for a in assumptions_for(nodes, b["assume_all_upto_nodes"]):
            want = expected_count(c0, a)
            if 0 < want < (1 << nsp):
                nt = True
            for pol in (("first",), ("last",)):
                call_count(acc, "count", space.build(desc), case, a, want, pol)
            acc.observe(want)
        if nt:
            acc.nontrivial += 1
        acc.sample(case)
        if acc.out_of_time():
            break


def ladder_desc(k, t1, t2):
    """k inputs; a chain of 2-input gates alternating types, one 3-input gate in the middle."""
    nodes = [[f"i{j}", "input", [], False] for j in range(k)]
    prev = "i0"
    for j in range(1, k):
        t = t1 if j % 2 else t2
        nodes.append([f"g{j}", t, [prev, f"i{j}"], j == k - 1])
        prev = f"g{j}"
    return {"name": "top", "nodes": nodes}


def run_ladder(job, acc):
    k = job["k"]
    for t1, t2 in (("and", "or"), ("xor", "nand"), ("nor", "xnor"), ("or", "xor")):
        desc = ladder_desc(k, t1, t2)
        c = space.build(desc)
        tabs, fr, full = refsim.tables(c.graph)
        out = f"g{k-1}"
        case = {"kind": "ladder", "desc": desc}
        acc.states += 1
        acc.nontrivial += 1
        for a, want in (({}, 1 << k), ({out: True}, refsim.popcount(tabs[out])),
                        ({out: False, "i0": True}, refsim.popcount(~tabs[out] & tabs["i0"] & full))):
            pols = (("first",), ("last",)) if k <= 8 else (("first",),)
            for pol in pols:
                call_count(acc, "ladder", space.build(desc), case, a, want, pol)
            acc.observe(want)
        acc.sample(case)


def run_sigprob(job, acc):
    import circuitgraph as cg

    b = bounds(job["tier"])

    def descs():
        for I, G in b["sigprob"]:
            for gates in space.circuits(I, G, min_gates=1):
                yield space.to_desc(I, gates, outputs="sinks")
        for gates in space.circuits(1, 2, consts=("0", "1"), min_gates=1):
            yield space.to_desc(1, gates, consts=("0", "1"), outputs="all")
        for gates in space.circuits(2, 2, max_arity=2, min_gates=2):
            yield space.to_desc(2, gates, outputs="all")  # inputs that are outputs

    for _idx, desc in space.chunk(descs(), job["chunk"], job["of"]):
        c = space.build(desc)
        tabs, fr, full = refsim.tables(c.graph)
        succ_pred = {n: set(c.graph.pred[n]) for n in c.graph.nodes}
        acc.states += 1
        acc.nontrivial += 1
        for n in sorted(c.graph.nodes):
            # startpoints of n: inputs in the reflexive transitive fan-in
            cone = {n}
            stack = [n]
            while stack:
                u = stack.pop()
                for p in succ_pred[u]:
                    if p not in cone:
                        cone.add(p)
                        stack.append(p)
            sp = [x for x in fr if x in cone]
            # ones of n over its own startpoints
            ones = refsim.popcount(tabs[n]) >> (len(fr) - len(sp))
            want = ones / (1 << len(sp))
            case = {"kind": "sigprob", "desc": desc, "node": n}
            for pol in (("first",), ("last",)):
                satref.set_policy(pol)
                acc.transitions += 1
                cc = dict(case)
                cc["policy"] = list(pol)
                try:
                    got = cg.props.signal_probability(space.build(desc), n, approx=False)
                except Exception as e:  # noqa: BLE001
                    acc.violation("sigprob", f"raises:{common.exc_name(e)}", cc, repr(e))
                    continue
                finally:
                    satref.set_policy(("first",))
                if got != want:
                    acc.violation("sigprob", "wrong-probability", cc, f"signal_probability({n}) = {got}, expected {want}")
            acc.observe(n, want)
        acc.sample({"kind": "sigprob", "desc": desc})


def parse_dimacs(text):
    ind, clauses, hdr = None, [], None
    for line in text.splitlines():
        line = line.strip()
        if not line:
            continue
        if line.startswith("c ind"):
            ind = (ind or []) + [int(t) for t in line.split()[2:] if t != "0"]
        elif line.startswith("p cnf"):
            hdr = tuple(int(t) for t in line.split()[2:4])
        elif line[0] in "cx":
            continue
        else:
            lits = [int(t) for t in line.split()]
            clauses.append(lits[:-1])
    return ind, clauses, hdr


def run_approx(job, acc):
    import circuitgraph as cg

    def descs():
        full = job["tier"] != "quick"
        for gates in space.circuits(2, 2 if full else 1, min_gates=1):
            yield space.to_desc(2, gates, outputs="sinks")
        for gates in space.circuits(3, 1, types=("xor", "xnor", "nand"), min_gates=1):
            yield space.to_desc(3, gates, outputs="sinks")
        for gates in space.circuits(2, 2, types=("not", "xnor", "or"), max_arity=2, min_gates=2):
            yield space.to_desc(2, gates, outputs="sinks")
        for i, d in enumerate(bb_variants()):
            if full or i % 6 == 0:
                yield d
        for gates in space.circuits(1, 2, types=("and", "nor", "not"), consts=("0", "1"), min_gates=2):
            yield space.to_desc(1, gates, consts=("0", "1"), outputs="sinks")
        # many startpoints: the sampling set must name every one of them however long it gets
        for n in (9, 10, 11, 12):
            for t in ("or", "nand") if n > 10 else ("or", "nand", "xor"):
                names = [f"i{j:02d}" for j in range(n)]
                yield {"name": "top", "nodes": [[x, "input", [], False] for x in names] + [["g", t, names, True]]}

    tmpd = tempfile.mkdtemp(prefix="mcv_c08_")
    copy = os.path.join(tmpd, "instance.cnf")
    os.environ["MCV_APPROXMC_COPY"] = copy
    try:
        for _idx, desc in space.chunk(descs(), job["chunk"], job["of"]):
            c = space.build(desc)
            nodes = sorted(c.graph.nodes)
            sink = [n for n in nodes if c.graph.nodes[n].get("output")]
            acc.states += 1
            acc.nontrivial += 1
            alist = [{}] + [{s: v} for s in sink[:1] for v in (True, False)]
            if len(nodes) >= 2:
                alist.append({nodes[0]: True, nodes[-1]: False})
            for a in alist:
                want = expected_count(c, a)
                case = {"kind": "approx", "desc": desc, "assumption": a}
                acc.transitions += 1
                if os.path.exists(copy):
                    os.remove(copy)
                try:
                    # every fourth circuit: the same call was made before the circuit's last in-place edit
                    variant = "stale" if (_idx // job["of"]) % 4 == 0 else None
                    case["variant"] = variant
                    _cc, got = space.call_with_history(
                        desc, (lambda x: cg.sat.approx_model_count(x, dict(a))) if a else cg.sat.approx_model_count, variant)
                except Exception as e:  # noqa: BLE001
                    acc.violation("approx", f"raises:{common.exc_name(e)}", case, repr(e))
                    continue
                if got != want:
                    acc.violation("approx", "approx-count-wrong", case, f"returned {got}, expected {want}")
                    continue
                try:
                    text = open(copy).read()
                except OSError:
                    acc.violation("approx", "no-instance-captured", case, "")
                    continue
                ind, clauses, hdr = parse_dimacs(text)
                _f, variables = cg.sat.cnf(space.build(desc))
                # variable numbering is hash-order dependent but deterministic within this interpreter
                if ind is None:
                    acc.violation("approx", "no-sampling-set", case, text[:200])
                    continue
                if hdr is None or hdr[1] != len(clauses) or any(abs(l) > hdr[0] for cl in clauses for l in cl):
                    acc.violation("approx", "bad-dimacs-header", case, f"header {hdr}, {len(clauses)} clauses")
                if len(ind) != len(set(ind)) or len(ind) != len(startpoints_of(c)):
                    acc.violation("approx", "sampling-set-wrong-size", case, f"ind={ind} startpoints={startpoints_of(c)}")
                acc.observe(want, len(clauses))
                acc.outcome("approx-ok")
            acc.sample({"kind": "approx", "desc": desc})
    finally:
        os.environ.pop("MCV_APPROXMC_COPY", None)
        try:
            if os.path.exists(copy):
                os.remove(copy)
            os.rmdir(tmpd)
        except OSError:
            pass


# --- histories on one object ------------------------------------------------------------------------


def hist_ops(c):
    nodes = sorted(c.graph.nodes)
    outs = [n for n in nodes if c.graph.nodes[n].get("output")]
    gates = [n for n in nodes if c.graph.nodes[n]["type"] in space.MULTI]
    ops = [["count", {}]]
    for o in outs[:1]:
        ops += [["count", {o: True}], ["count", {o: False}], ["solve", {o: True}]]
    ops.append(["count", {nodes[0]: False}])
    for g in gates[:1]:
        ops.append(["retype", g])
    return ops


def apply_hist(acc, desc, ops, check_last_only=False):
    """Run ops in order on ONE object, checking every counting call against the oracle."""
    import circuitgraph as cg

    flip = {"and": "or", "or": "nand", "nand": "nor", "nor": "xor", "xor": "xnor", "xnor": "and"}
    c = space.build(desc)
    for i, op in enumerate(ops):
        case = {"kind": "history", "desc": desc, "ops": ops[: i + 1]}
        last = i == len(ops) - 1
        try:
            if op[0] == "retype":
                c.set_type(op[1], flip[c.type(op[1])])
                continue
            if op[0] == "solve":
                cg.sat.solve(c, dict(op[1]))
                continue
            want = expected_count(c, op[1])
            if op[0] == "count":
                got = cg.sat.model_count(c, dict(op[1])) if op[1] else cg.sat.model_count(c)
            else:
                got = cg.sat.approx_model_count(c, dict(op[1])) if op[1] else cg.sat.approx_model_count(c)
        except Exception as e:  # noqa: BLE001
            if last or not check_last_only:
                acc.violation("history", f"{op[0]}-raises:{common.exc_name(e)}", case, repr(e))
            return
        if last or not check_last_only:
            acc.transitions += 1
            if got != want:
                acc.violation("history", f"{op[0]}-wrong-after-history", case, f"{op[0]} = {got}, expected {want}")
                return
    acc.outcome("history-ok")


def run_history(job, acc):
    def descs():
        for gates in space.circuits(2, 2, types=("and", "or", "xor", "nand", "not"), max_arity=2, min_gates=2):
            yield space.to_desc(2, gates, outputs="sinks")

    for _idx, desc in space.chunk(descs(), job["chunk"], job["of"]):
        c = space.build(desc)
        ops = hist_ops(c)
        depth = 3
        for seq in itertools.product(ops, repeat=depth):
            if seq[-1][0] in ("retype", "solve"):
                continue
            acc.states += 1
            acc.nontrivial += 1
            apply_hist(acc, desc, [list(o) for o in seq], check_last_only=True)
        # the external counter after a counting call with other assumptions, on a slice of the circuits
        if _idx % 8 == 0:
            outs = [n for n in sorted(c.graph.nodes) if c.graph.nodes[n].get("output")]
            for first in (["count", {outs[0]: True}], ["approx", {outs[0]: False}], ["retype", None]):
                if first[0] == "retype":
                    g = [n for n in sorted(c.graph.nodes) if c.graph.nodes[n]["type"] in space.MULTI]
                    if not g:
                        continue
                    first = ["retype", g[0]]
                for second in (["approx", {}], ["approx", {outs[0]: True}]):
                    acc.states += 1
                    apply_hist(acc, desc, [first, second], check_last_only=True)
        acc.sample({"kind": "history", "desc": desc, "ops": [list(o) for o in ops[:3]]})
        acc.observe(desc["nodes"][-1])


def run(job):
    common.setup_paths()
    acc = Acc(job)
    {"count": run_count, "ladder": run_ladder, "sigprob": run_sigprob, "approx": run_approx,
     "history": run_history}[job["sub"]](job, acc)
    return acc.result()


def replay(case, job):
    import circuitgraph as cg

    common.setup_paths()
    acc = Acc(job)
    k = case["kind"]
    if k in ("count", "ladder"):
        c = space.build(case["desc"])
        a = case.get("assumption", {})
        call_count(acc, k, c, case, a, expected_count(c, a), tuple(case.get("policy", ["first"])))
    elif k == "sigprob":
        j = {"tier": "quick", "chunk": 0, "of": 1}
        c = space.build(case["desc"])
        n = case["node"]
        tabs, fr, full = refsim.tables(c.graph)
        cone = {n}
        stack = [n]
        while stack:
            u = stack.pop()
            for p in c.graph.pred[u]:
                if p not in cone:
                    cone.add(p)
                    stack.append(p)
        sp = [x for x in fr if x in cone]
        want = (refsim.popcount(tabs[n]) >> (len(fr) - len(sp))) / (1 << len(sp))
        satref.set_policy(tuple(case.get("policy", ["first"])))
        acc.transitions += 1
        try:
            got = cg.props.signal_probability(space.build(case["desc"]), n, approx=False)
            if got != want:
                acc.violation("sigprob", "wrong-probability", case, f"{got} vs {want}")
        except Exception as e:  # noqa: BLE001
            acc.violation("sigprob", f"raises:{common.exc_name(e)}", case, repr(e))
        satref.set_policy(("first",))
    elif k == "approx":
        c = space.build(case["desc"])
        a = case.get("assumption", {})
        want = expected_count(c, a)
        acc.transitions += 1
        try:
            _cc, got = space.call_with_history(
                case["desc"], (lambda x: cg.sat.approx_model_count(x, dict(a))) if a else cg.sat.approx_model_count, case.get("variant"))
            if got != want:
                acc.violation("approx", "approx-count-wrong", case, f"returned {got}, expected {want}")
        except Exception as e:  # noqa: BLE001
            acc.violation("approx", f"raises:{common.exc_name(e)}", case, repr(e))
    elif k == "history":
        apply_hist(acc, case["desc"], case["ops"], check_last_only=True)
    return acc.result()
